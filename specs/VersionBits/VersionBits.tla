---- MODULE VersionBits ----
(***************************************************************************)
(* BIP9 soft-fork deployment states (src/versionbits.cpp,                  *)
(* AbstractThresholdConditionChecker / VersionBitsConditionChecker).       *)
(*                                                                         *)
(* The model is a tree of block index entries (parent, version, time)      *)
(* grown by Mine, plus one persistent ThresholdConditionCache that the     *)
(* query actions read and fill exactly as the code does: walk back in      *)
(* steps of one period to a cached or pre-start ancestor, then forward.    *)
(* Every query action is one public call, with the block the call names    *)
(* (`pindexPrev`; 0 stands for nullptr, the parent of a genesis block).    *)
(*                                                                         *)
(* `Bip9(b)` is the declarative definition: the recursion of BIP9 (with    *)
(* the minimum activation height of BIP341's deployment) block by block.   *)
(* TLC proves that the cached computation equals it from every reachable   *)
(* cache and from an empty one, and decides the clauses of C53.            *)
(***************************************************************************)
EXTENDS Integers, Sequences, FiniteSets, TLC, VF
CONSTANTS P,            \* blocks per period
          MaxBlocks,    \* bound on the number of block index entries
          Times,        \* block timestamps
          Versions,     \* block versions (see Signals)
          Thresholds, Starts, Timeouts, MinHeights,   \* deployment parameters are chosen in Init
          Specials,     \* subset of {"always", "never"}: the special start values ALWAYS_ACTIVE / NEVER_ACTIVE
          ForkFrom,     \* one side branch may be started once the tree has ForkFrom blocks (> MaxBlocks: never)
          Mining,       \* Mine is enabled (FALSE: the tree is given by the initial state, see VersionBitsSeeded)
          Queries,      \* the cache-using queries are enabled (FALSE: only the cold answers of every tree are compared)
          MonotoneMTP,  \* assume the median time past never decreases along a chain (consensus: time-too-old)
          StatsMode     \* where GetStateStatisticsFor (which cannot see the cache, and reads one period only) is explored:
                        \* "newest" = newest block, empty cache; "cold" = every block, empty cache; "all" = everywhere

ALWAYS_ACTIVE == -1     \* Consensus::BIP9Deployment::ALWAYS_ACTIVE
NEVER_ACTIVE == -2      \* Consensus::BIP9Deployment::NEVER_ACTIVE
MedianTimeSpan == 11    \* CBlockIndex::nMedianTimeSpan
NoEntry == "-"
StateNames == {"defined", "started", "locked_in", "active", "failed"}   \* StateName()
Final == {"active", "failed"}
\* VersionBitsConditionChecker::Condition: top three bits are 001 and the deployment's bit is set
Signals(v) == v \in {"sig", "sigx"}

VARIABLES dep,      \* [threshold, start, timeout, minh]
          par,      \* par[b]: parent of block b (0 = none); blocks are 1..Len(par) in order of creation
          ver, tm,  \* version class and timestamp of each block
          ht,       \* height of each block (derived: ht[b] = ht[par[b]] + 1, genesis 0)
          mtp,      \* median time past of each block (derived, see MTPOf)
          st, snc,  \* memo of the declarative definitions: st[b + 1] = Bip9(b), snc[b + 1] = SinceBip9(b) (see MemoOK)
          cache,    \* the persistent ThresholdConditionCache: [0..MaxBlocks -> state | NoEntry], keyed by pindexPrev
          lastAct, lastRes
vars == <<dep, par, ver, tm, ht, mtp, st, snc, cache, lastAct, lastRes>>

N == Len(par)
Blocks == 1..N
Prevs == 0..N                 \* what a query may name: nullptr or a block
EmptyCache == [b \in 0..MaxBlocks |-> NoEntry]
H(b) == IF b = 0 THEN -1 ELSE ht[b]

\* CBlockIndex::GetAncestor(height): nullptr if height is negative or above the block
RECURSIVE Anc(_, _)
Anc(b, h) == IF b = 0 \/ h < 0 \/ h > ht[b] THEN 0 ELSE IF ht[b] = h THEN b ELSE Anc(par[b], h)

\* CBlockIndex::GetMedianTimePast: sort the times of the last (up to) 11 blocks, take element size/2
RECURSIVE WindowOf(_, _, _, _)
WindowOf(pa, ti, b, k) == IF b = 0 \/ k = 0 THEN <<>> ELSE <<ti[b]>> \o WindowOf(pa, ti, pa[b], k - 1)
MedianOf(w) == LET n == Len(w)
                   less(v) == Cardinality({i \in 1..n : w[i] < v})
                   leq(v) == Cardinality({i \in 1..n : w[i] <= v})
               IN CHOOSE v \in {w[i] : i \in 1..n} : less(v) <= n \div 2 /\ n \div 2 < leq(v)
MTPOf(pa, ti, b) == MedianOf(WindowOf(pa, ti, b, MedianTimeSpan))
MTP(b) == mtp[b]

\* number of signalling blocks among the k blocks ending at b (walk over pprev as the code does)
RECURSIVE CountFrom(_, _)
CountFrom(b, k) == IF k = 0 THEN 0 ELSE (IF Signals(ver[b]) THEN 1 ELSE 0) + CountFrom(par[b], k - 1)

IsBoundary(b) == b = 0 \/ (ht[b] + 1) % P = 0       \* the next block starts a period
\* "computed based on a pindexPrev whose height equals a multiple of nPeriod - 1"
BoundaryOf(b) == IF b = 0 THEN 0 ELSE Anc(b, ht[b] - ((ht[b] + 1) % P))

----
(***************************************************************************)
(* Declarative: BIP9.  Bip9(b) is the state of a block whose parent is b.  *)
(***************************************************************************)
\* one step of the BIP9 state machine at the first block (height h) of a period: s is the state of the previous
\* period, m the median time past of its last block and cnt the number of its blocks that signalled
Bip9Step(s, h, m, cnt, start, timeout) ==
  CASE s = "defined" -> IF m >= start THEN "started" ELSE "defined"
    [] s = "started" -> IF cnt >= dep.threshold THEN "locked_in"                 \* lock-in has precedence
                        ELSE IF m >= timeout THEN "failed" ELSE "started"
    [] s = "locked_in" -> IF h >= dep.minh THEN "active" ELSE "locked_in"
    [] OTHER -> s                                                                \* ACTIVE and FAILED are final
Bip9Next(s, h, m, cnt) == Bip9Step(s, h, m, cnt, dep.start, dep.timeout)
Bip9Genesis == IF dep.start = ALWAYS_ACTIVE THEN "active" ELSE IF dep.start = NEVER_ACTIVE THEN "failed"
               ELSE "defined"                                                    \* the genesis block is by definition DEFINED
RECURSIVE Bip9(_)
Bip9(b) ==
  IF dep.start \in {ALWAYS_ACTIVE, NEVER_ACTIVE} \/ b = 0 THEN Bip9Genesis
  ELSE IF (ht[b] + 1) % P # 0 THEN Bip9(par[b])                 \* not the first block of a period: as its parent
  ELSE Bip9Next(Bip9(par[b]), ht[b] + 1, MTP(b), CountFrom(b, P))
\* Time is an offset.  BIP9 only compares median times with the start and the timeout, so the states are the same when
\* every block time, the start and the timeout are moved by the same d (the special start values are not times and stay).
\* The replay uses this: model time t is realised as Epoch + 600 * t for epochs below, across and above 2^31 and with the
\* largest block time at 2^32 - 1 (TLC integers are 32 bit, the epochs themselves live in the harness arguments).
RECURSIVE Bip9Shifted(_, _)
Bip9Shifted(b, d) ==
  IF dep.start \in {ALWAYS_ACTIVE, NEVER_ACTIVE} \/ b = 0 THEN Bip9Genesis
  ELSE IF (ht[b] + 1) % P # 0 THEN Bip9Shifted(par[b], d)
  ELSE Bip9Step(Bip9Shifted(par[b], d), ht[b] + 1, MTPOf(par, [i \in 1..Len(tm) |-> tm[i] + d], b), CountFrom(b, P),
                dep.start + d, dep.timeout + d)
\* height of the first block (on the chain of b, up to the block after b) to which the state applies
SinceBip9(b) ==
  LET hs == {h \in 0..(H(b) + 1) : h % P = 0 /\ Bip9(Anc(b, h - 1)) = Bip9(b)}
  IN CHOOSE h \in hs : \A g \in hs : h <= g
\* statistics of the period containing block b, up to b
RECURSIVE UpTo(_, _)
UpTo(b, k) == IF k = 0 THEN <<>> ELSE Append(UpTo(par[b], k - 1), b)
Stats(b) == LET k == (ht[b] % P) + 1
                bl == UpTo(b, k)
                cnt == Cardinality({i \in 1..k : Signals(ver[bl[i]])})
            IN [period |-> P, threshold |-> dep.threshold, elapsed |-> k, count |-> cnt,
                possible |-> (P - dep.threshold) >= (k - cnt),
                bits |-> [i \in 1..k |-> Signals(ver[bl[i]])]]

----
(***************************************************************************)
(* Procedural: what GetStateFor / GetStateSinceHeightFor do with a cache.  *)
(***************************************************************************)
RECURSIVE WalkBack(_, _, _)
WalkBack(p, c, todo) ==
  IF c[p] # NoEntry THEN [p |-> p, c |-> c, todo |-> todo]
  ELSE IF p = 0 THEN [p |-> 0, c |-> [c EXCEPT ![0] = "defined"], todo |-> todo]
  ELSE IF MTP(p) < dep.start THEN [p |-> p, c |-> [c EXCEPT ![p] = "defined"], todo |-> todo]    \* the "optimization"
  ELSE WalkBack(Anc(p, ht[p] - P), c, Append(todo, p))

StepState(s, p) ==
  CASE s = "defined" -> IF MTP(p) >= dep.start THEN "started" ELSE s
    [] s = "started" -> IF CountFrom(p, P) >= dep.threshold THEN "locked_in"
                        ELSE IF MTP(p) >= dep.timeout THEN "failed" ELSE s
    [] s = "locked_in" -> IF ht[p] + 1 >= dep.minh THEN "active" ELSE s
    [] OTHER -> s

RECURSIVE Forward(_, _, _)
Forward(s, c, todo) ==
  IF todo = <<>> THEN [state |-> s, cache |-> c]
  ELSE LET p == todo[Len(todo)]
           nx == StepState(s, p)
       IN Forward(nx, [c EXCEPT ![p] = nx], SubSeq(todo, 1, Len(todo) - 1))

GetStateFor(b, c) ==
  IF dep.start = ALWAYS_ACTIVE THEN [state |-> "active", cache |-> c]
  ELSE IF dep.start = NEVER_ACTIVE THEN [state |-> "failed", cache |-> c]
  ELSE LET w == WalkBack(BoundaryOf(b), c, <<>>) IN Forward(w.c[w.p], w.c, w.todo)

RECURSIVE SinceLoop(_, _, _, _)
SinceLoop(pp, ppp, init, c) ==
  IF ppp = 0 THEN [h |-> ht[pp] + 1, cache |-> c]
  ELSE LET r == GetStateFor(ppp, c) IN
       IF r.state = init THEN SinceLoop(ppp, Anc(ppp, ht[ppp] - P), init, r.cache)
       ELSE [h |-> ht[pp] + 1, cache |-> r.cache]
GetSince(b, c) ==
  IF dep.start \in {ALWAYS_ACTIVE, NEVER_ACTIVE} THEN [h |-> 0, cache |-> c]
  ELSE LET r == GetStateFor(b, c) IN
       IF r.state = "defined" THEN [h |-> 0, cache |-> r.cache]
       ELSE LET b0 == BoundaryOf(b) IN SinceLoop(b0, Anc(b0, ht[b0] - P), r.state, r.cache)   \* b0 = 0 would be the Assert

----
MinOf(S) == CHOOSE x \in S : \A y \in S : x <= y
StartValues == Starts \cup {x \in {ALWAYS_ACTIVE} : "always" \in Specials} \cup {x \in {NEVER_ACTIVE} : "never" \in Specials}
Deps == {d \in [threshold : Thresholds, start : StartValues, timeout : Timeouts, minh : MinHeights] :
           \* the special start values ignore the other parameters: one representative each
           d.start \in {ALWAYS_ACTIVE, NEVER_ACTIVE} =>
             (d.threshold = MinOf(Thresholds) /\ d.timeout = MinOf(Timeouts) /\ d.minh = MinOf(MinHeights))}

Init == /\ dep \in Deps
        /\ par = <<>> /\ ver = <<>> /\ tm = <<>> /\ ht = <<>> /\ mtp = <<>>
        /\ st = <<Bip9Genesis>> /\ snc = <<0>>
        /\ cache = EmptyCache
        /\ lastAct = <<"init">> /\ lastRes = "none"

NoForkYet == \A b \in Blocks : par[b] = b - 1
\* a new block index entry (the unit test's Mine): extends the newest block, or starts the one side branch
Mine(p, v, t) ==
  /\ Mining /\ N < MaxBlocks
  /\ \/ p = N
     \/ N >= ForkFrom /\ NoForkYet /\ p \in 1..(N - 1)
  /\ LET m == MTPOf(Append(par, p), Append(tm, t), N + 1) IN
       /\ (MonotoneMTP /\ p # 0) => m >= MTP(p)
       /\ mtp' = Append(mtp, m)
       /\ LET h == H(p) + 2          \* height of a child of the new block
              s1 == IF dep.start \in {ALWAYS_ACTIVE, NEVER_ACTIVE} \/ h % P # 0 THEN st[p + 1]
                    ELSE Bip9Next(st[p + 1], h, m, (IF Signals(v) THEN 1 ELSE 0) + CountFrom(p, P - 1))
          IN /\ st' = Append(st, s1)
             /\ snc' = Append(snc, IF s1 = st[p + 1] THEN snc[p + 1] ELSE h)
  /\ par' = Append(par, p) /\ ver' = Append(ver, v) /\ tm' = Append(tm, t) /\ ht' = Append(ht, H(p) + 1)
  /\ UNCHANGED <<dep, cache>>
  /\ lastAct' = <<"mine", p, v, t>> /\ lastRes' = "none"

\* GetStateFor(pindexPrev = b, cache); consensus code consumes it as IsActiveAfter
QState(b) ==
  LET r == GetStateFor(b, cache) IN
  /\ Queries
  /\ cache' = r.cache
  /\ UNCHANGED <<dep, par, ver, tm, ht, mtp, st, snc>>
  /\ lastAct' = <<"state", b>> /\ lastRes' = [state |-> r.state, active |-> r.state = "active"]

\* GetStateSinceHeightFor(pindexPrev = b, cache)
QSince(b) ==
  LET r == GetSince(b, cache) IN
  /\ Queries
  /\ cache' = r.cache
  /\ UNCHANGED <<dep, par, ver, tm, ht, mtp, st, snc>>
  /\ lastAct' = <<"since", b>> /\ lastRes' = r.h

\* GetStateStatisticsFor(pindex = b): BIP9 reports statistics while the block's period is STARTED (or LOCKED_IN)
QStats(b) ==
  /\ b # 0 /\ st[par[b] + 1] \in {"started", "locked_in"}
  /\ StatsMode = "all" \/ (cache = EmptyCache /\ (StatsMode = "cold" \/ b = N))
  /\ UNCHANGED <<dep, par, ver, tm, ht, mtp, st, snc, cache>>
  /\ lastAct' = <<"stats", b>> /\ lastRes' = Stats(b)

Next == \/ \E p \in Prevs, v \in Versions, t \in Times : Mine(p, v, t)
        \/ \E b \in Prevs : QState(b) \/ QSince(b) \/ QStats(b)
Spec == Init /\ [][Next]_vars

----
(***************************************************************************)
(* C53                                                                     *)
(***************************************************************************)
S(b) == st[b + 1]                                 \* = Bip9(b), the state of a block whose parent is b
Special == dep.start \in {ALWAYS_ACTIVE, NEVER_ACTIVE}
\* the memo variables hold the declarative definitions (inductive: entries never change, ancestors never change)
ShiftInvariant == \A d \in {7, 100000} : Bip9Shifted(N, d) = st[N + 1]
MemoOK == st[N + 1] = Bip9(N) /\ snc[N + 1] = SinceBip9(N) /\ Len(st) = N + 1 /\ Len(snc) = N + 1

\* The cached computation is BIP9 from the warm cache, whatever was queried before ...
WarmIsBip9 == cache # EmptyCache => \A b \in Prevs : GetStateFor(b, cache).state = S(b) /\ GetSince(b, cache).h = snc[b + 1]
\* ... and from a fresh one. (A cold answer depends only on the ancestors of the block, which never change: it is
\* enough to ask for the newest block in every state; ColdAll asks for every block.)
ColdIsBip9 == GetStateFor(N, EmptyCache).state = S(N) /\ GetSince(N, EmptyCache).h = snc[N + 1]
ColdAll == \A b \in Prevs : GetStateFor(b, EmptyCache).state = S(b) /\ GetSince(b, EmptyCache).h = snc[b + 1]
\* every cache entry is keyed by a period boundary of an existing block and holds the BIP9 state
CacheSound == \A b \in 0..MaxBlocks : cache[b] # NoEntry => (b \in Prevs /\ IsBoundary(b) /\ cache[b] = S(b))
\* The clauses of C53 on the BIP9 states (WarmIsBip9 / ColdIsBip9 carry them over to the cached computation).
\* All blocks of a period have the same state (the state of block b is the answer for its parent):
SamePeriod == \A b \in Blocks : ht[b] % P # 0 => S(par[b]) = S(par[par[b]])
\* ACTIVE and FAILED are never left; only the transitions of the BIP9 diagram occur, only at period boundaries
Absorbing == \A b \in Blocks : S(par[b]) \in Final => S(b) = S(par[b])
Diagram == \A b \in Blocks : S(b) # S(par[b]) =>
             /\ (ht[b] + 1) % P = 0
             /\ <<S(par[b]), S(b)>> \in {<<"defined", "started">>, <<"started", "locked_in">>,
                                         <<"started", "failed">>, <<"locked_in", "active">>}
\* DEFINED exactly until a period's median time reaches the start (non-recursive reading of the statement)
BoundariesUpTo(b) == {q \in Blocks : (ht[q] + 1) % P = 0 /\ Anc(b, ht[q]) = q}
DefinedUntilStart == ~Special => \A b \in Prevs : (S(b) = "defined") <=> (\A q \in BoundariesUpTo(b) : MTP(q) < dep.start)
\* STARTED ends with LOCKED_IN (precedence) on threshold, else FAILED on timeout; LOCKED_IN ends when the height is reached
StartedStep == ~Special => \A b \in Blocks : ((ht[b] + 1) % P = 0 /\ S(par[b]) = "started") =>
                 S(b) = (IF CountFrom(b, P) >= dep.threshold THEN "locked_in"
                         ELSE IF MTP(b) >= dep.timeout THEN "failed" ELSE "started")
LockedInStep == ~Special => \A b \in Blocks : ((ht[b] + 1) % P = 0 /\ S(par[b]) = "locked_in") =>
                  S(b) = (IF ht[b] + 1 >= dep.minh THEN "active" ELSE "locked_in")
AlwaysNever == /\ dep.start = ALWAYS_ACTIVE => \A b \in Prevs : S(b) = "active" /\ snc[b + 1] = 0
               /\ dep.start = NEVER_ACTIVE => \A b \in Prevs : S(b) = "failed" /\ snc[b + 1] = 0
\* statistics: a complete period of a STARTED deployment locks in exactly when the count reaches the threshold
StatsAgree == \A b \in Blocks : ((ht[b] + 1) % P = 0 /\ S(par[b]) = "started") =>
                /\ Stats(b).elapsed = P /\ Stats(b).count = CountFrom(b, P)
                /\ (S(b) = "locked_in") <=> (Stats(b).count >= dep.threshold)
                /\ Stats(b).possible <=> (S(b) = "locked_in")

TypeOK == /\ \A b \in Blocks : par[b] \in 0..(b - 1) /\ ht[b] = H(par[b]) + 1 /\ mtp[b] = MTPOf(par, tm, b)
          /\ MonotoneMTP => \A b \in Blocks : par[b] # 0 => MTP(b) >= MTP(par[b])

----
\* What is compared with the implementation: the BIP9 state and since-height of every block (the harness asks with a
\* fresh cache), and the content of the persistent cache (internal bookkeeping: a difference is a deviation).
Proj == [dep |-> [period |-> P, threshold |-> dep.threshold, start |-> dep.start, timeout |-> dep.timeout, minh |-> dep.minh],
         par |-> par, ver |-> ver, tm |-> tm,
         st |-> st, since |-> snc,
         cache |-> [i \in 1..(N + 1) |-> cache[i - 1]]]
View0 == <<dep, par, ver, tm, cache>>
Emit == VFEdge(Proj, lastAct', lastRes', Proj')
====
