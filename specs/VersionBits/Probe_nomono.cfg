CONSTANTS
  P = 1
  MaxBlocks = 4
  Times = {0, 1}
  Versions = {"sig", "none"}
  Thresholds = {1}
  Starts = {1}
  Specials = {"always", "never"}
  Timeouts = {2}
  MinHeights = {0}
  ForkFrom = 99
  Mining = TRUE
  Queries = FALSE
  MonotoneMTP = FALSE
  StatsMode = "newest"
INIT Init
NEXT Next
VIEW View0
INVARIANTS TypeOK MemoOK ShiftInvariant WarmIsBip9 ColdIsBip9 CacheSound SamePeriod Absorbing Diagram DefinedUntilStart StartedStep LockedInStep AlwaysNever StatsAgree
CHECK_DEADLOCK FALSE
