CONSTANTS
  Tier = "thorough"
  MinN = 0
  MaxN = 4
  TypeIds = {1, 2, 3, 4, 5, 6, 7, 8, 9, 10, 11, 12}
  RunAlgos = {}
  WCross = FALSE
INIT Init
NEXT Next
INVARIANTS TypeOK OptimumExists OptimaAgree NonOptimaWorse OptPcWeaker OptPcSameWithoutCap Admitted BnBIsChangeless AmountIsEffective CGCoversReserve RunEnds AsCodedCG AsCodedBnB AsCodedValid EmitRow
CHECK_DEADLOCK FALSE
