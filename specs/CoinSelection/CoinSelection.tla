---- MODULE CoinSelection ----
(***************************************************************************)
(* C40: what a coin-selection algorithm of src/wallet/coinselection.cpp    *)
(* may return.  The module does NOT predict which coins an algorithm picks *)
(* (all four are heuristics / searches with unspecified tie-breaks); it    *)
(* defines, for one call                                                   *)
(*     algorithm(pool of output groups, target, parameters, max weight)    *)
(* the set of subsets the property admits (Feasible) and, for the two      *)
(* exhaustive searches, the brute-force optimum of the objective over all  *)
(* feasible subsets.  TLC enumerates calls of a boundary-valued domain and *)
(* emits one row per call carrying that verdict table; the harness runs    *)
(* the real algorithm on real OutputGroups and looks its answer up in the  *)
(* table (engine E4, relation mode: nothing is compared with "the model's  *)
(* choice").                                                               *)
(*                                                                         *)
(* An output group is a sequence of coins; a coin is [e, b, x]:            *)
(*   e = effective value (may be 0 or negative), b = input size in vbytes, *)
(*   x = ancestor bump fee.  Under the call's feerate r (sat/vB):          *)
(*   fee = r*b + x, value (nValue) = e + fee, long-term fee = LTRate*b,    *)
(*   weight = 4*b  (COutput / OutputGroup::Insert).                        *)
(***************************************************************************)
EXTENDS Integers, Sequences, FiniteSets, TLC, VF
CONSTANTS Tier,        \* "quick" | "few" | "thorough": which (algorithm, feerate, flags, change parameters) combinations
          MinN, MaxN,  \* pool sizes enumerated
          TypeIds,     \* catalogue entries used
          RunAlgos,    \* subset of {"bnb", "cg"}: also evaluate the model of that search as coded (Run) for each of its calls
          WCross       \* FALSE: weight caps around the weight of the subset that defines the target;
                       \* TRUE: weight caps around the weight of every subset

U == 50000             \* CHANGE_LOWER (coinselection.h): SRD's hard-wired change reserve
LTRate == 10           \* long-term feerate, sat/vB (CFeeRate(10000)): long_term_fee = 10 * bytes exactly
BigW == 400000         \* MAX_STANDARD_TX_WEIGHT: a cap that never binds here

Coin(e, b, x) == [e |-> e, b |-> b, x |-> x]
Catalogue == <<
  <<Coin(U, 10, 0)>>,                        \*  1
  <<Coin(U, 25, 0)>>,                        \*  2  same effective value as 1, heavier
  <<Coin(U + 40, 10, 0)>>,                   \*  3
  <<Coin(2*U, 11, 0)>>,                      \*  4
  <<Coin(2*U + 40, 25, 0)>>,                 \*  5
  <<Coin(3*U + 1, 10, 0)>>,                  \*  6
  <<Coin(U, 10, 0), Coin(U + 40, 11, 0)>>,   \*  7  a group of two coins (effective value 2U+40, 21 vbytes)
  <<Coin(U, 10, 700)>>,                      \*  8  like 1 but with an ancestor bump fee (same weight, higher fee)
  <<Coin(0, 10, 0)>>,                        \*  9  zero effective value      (only offered to the knapsack solver,
  <<Coin(-30, 10, 0)>>,                      \* 10  negative effective value   which receives the "mixed" groups)
  <<Coin(2*U, 25, 0)>>,                      \* 11  same effective value as 4, heavier
  <<Coin(5*U, 148, 0)>>                      \* 12  a big heavy coin
>>

RECURSIVE FieldSum(_, _)
FieldSum(g, fld) == IF g = <<>> THEN 0 ELSE Head(g)[fld] + FieldSum(Tail(g), fld)
RECURSIVE SetSum(_, _)
SetSum(S, f) == IF S = {} THEN 0 ELSE LET i == CHOOSE i \in S : TRUE IN f[i] + SetSum(S \ {i}, f)
RECURSIVE Pow2(_)
Pow2(k) == IF k = 0 THEN 1 ELSE 2 * Pow2(k - 1)

\* ---- group attributes (OutputGroup::Insert) under feerate r
GBytes(g) == FieldSum(g, "b")
GEff(g)   == FieldSum(g, "e")
GBump(g)  == FieldSum(g, "x")
GFee(g, r) == r * GBytes(g) + GBump(g)
GVal(g, r) == GEff(g) + GFee(g, r)
GLT(g)    == LTRate * GBytes(g)
GW(g)     == 4 * GBytes(g)
\* OutputGroup::GetSelectionAmount: the real value when the fee is subtracted from the outputs, else the effective value
GAmt(g, r, sffo) == IF sffo THEN GVal(g, r) ELSE GEff(g)

\* ---- the call
\* combination = [al: algorithm, r: feerate, sf: subtract-fee-from-outputs, cf: change fee, csf: fee to spend the change later]
\* As CreateTransactionInternal derives them: cost_of_change = cf + csf, min_viable_change = csf + 1 (dust ignored),
\* min change target = CHANGE_LOWER + cf.
Cmb(al, r, sf, cf, csf) == [al |-> al, r |-> r, sf |-> sf, cf |-> cf, csf |-> csf]
CombosOf(t) ==
  IF t = "quick" THEN
    { Cmb("bnb", 5, FALSE, 20, 40), Cmb("bnb", 30, FALSE, 20, 40), Cmb("bnb", 5, FALSE, 0, 0), Cmb("bnb", 10, FALSE, 100, 300),
      Cmb("cg", 30, FALSE, 20, 40), Cmb("srd", 30, FALSE, 20, 40), Cmb("knap", 30, FALSE, 20, 40), Cmb("knap", 5, TRUE, 20, 40) }
  ELSE IF t = "few" THEN
    { Cmb("bnb", 5, FALSE, 20, 40), Cmb("bnb", 30, FALSE, 20, 40), Cmb("cg", 30, FALSE, 20, 40), Cmb("srd", 30, FALSE, 20, 40),
      Cmb("knap", 30, FALSE, 20, 40) }
  ELSE
    { Cmb("bnb", r, FALSE, p[1], p[2]) : r \in {5, 10, 30}, p \in {<<0, 0>>, <<20, 40>>, <<100, 300>>} }
    \cup { Cmb(al, 30, sf, 20, 40) : al \in {"cg", "srd", "knap"}, sf \in BOOLEAN }
    \cup { Cmb("knap", 5, TRUE, 0, 0), Cmb("cg", 5, FALSE, 100, 300) }
Combos == CombosOf(Tier)

CostOfChange(c) == c.cf + c.csf
MinViable(c)    == c.csf + 1
ChangeTarget(c) == U + c.cf

Pools == UNION {{p \in [1..k -> TypeIds] : \A i \in 1..(k-1) : p[i] <= p[i+1]} : k \in MinN..MaxN}

VARIABLES pool,   \* sequence of catalogue ids: the groups offered to the algorithm
          st,     \* Stats(pool, cmb): the per-subset sums, computed once per pool
          ga,     \* the attributes of the offered groups as the model assumes them (the harness checks its construction against them)
          cmb,    \* the combination
          tgt,    \* selection target
          maxw,   \* max_selection_weight
          phase,  \* "new" (pool and cmb chosen) | "pool" (+ st computed) | "row" (a complete call)
          tab,    \* the verdict table of the call (see Table)
          sb,     \* bnb / cg: the pool in the search's sort order with lookahead tables (CtxBase), computed once per pool
          run     \* bnb / cg: the unbounded search as coded, best selection after each attempt (see Run); <<>> otherwise
vars == <<pool, cmb, st, ga, tgt, maxw, phase, tab, sb, run>>

Idx(p) == 1..Len(p)
AmtF(p, c) == [i \in Idx(p) |-> GAmt(Catalogue[p[i]], c.r, c.sf)]
EffF(p)    == [i \in Idx(p) |-> GEff(Catalogue[p[i]])]
ValF(p, c) == [i \in Idx(p) |-> GVal(Catalogue[p[i]], c.r)]
FeeF(p, c) == [i \in Idx(p) |-> GFee(Catalogue[p[i]], c.r)]
LTF(p)     == [i \in Idx(p) |-> GLT(Catalogue[p[i]])]
WF(p)      == [i \in Idx(p) |-> GW(Catalogue[p[i]])]
Mask(S) == SetSum(S, [i \in S |-> Pow2(i - 1)])

\* ---- the property's relation
\* Per-subset sums of one (pool, combination), computed once: [a: selection amount, e: effective value, v: value, w: weight,
\* iw: input waste = cost of spending the inputs now rather than at the long-term feerate]
Stats(p, c) ==
  LET A == TLCEval(AmtF(p, c))  E == TLCEval(EffF(p))  V == TLCEval(ValF(p, c))
      F == TLCEval(FeeF(p, c))  L == TLCEval(LTF(p))  W == TLCEval(WF(p)) IN
  TLCEval([S \in SUBSET Idx(p) |-> [m |-> Mask(S), a |-> SetSum(S, A), e |-> SetSum(S, E), v |-> SetSum(S, V), w |-> SetSum(S, W),
                                    iw |-> SetSum(S, F) - SetSum(S, L),
             \* "prefix-closed": of several groups with the same amount the subset holds the cheapest ones: every group left out
             \* has a strictly higher input waste than every group taken, or is an exact clone (same waste and weight) of it
             pc |-> \A i \in S : \A j \in Idx(p) \ S :
                      A[i] = A[j] => \/ F[j] - L[j] > F[i] - L[i]
                                     \/ (F[j] - L[j] = F[i] - L[i] /\ W[j] = W[i])]])
\* lower bound of the selected amount: the target; CoinGrinder must in addition fund the minimum change
Need(c, t)  == IF c.al = "cg" THEN t + ChangeTarget(c) ELSE t
\* upper bound: only branch-and-bound has one (changeless solutions: target + cost of change)
HasUpper(c) == c.al = "bnb"
Upper(c, t) == t + CostOfChange(c)
\* x = Stats(..)[S]
Feasible(x, c, t, mw) ==
  /\ x.a >= Need(c, t)
  /\ HasUpper(c) => x.a <= Upper(c, t)
  /\ x.w <= mw
\* the branch-and-bound objective: input waste + excess thrown away to fees
BnBWaste(x, t) == x.iw + x.a - t
\* SelectionResult::GetChange / RecalculateWaste
Change(x, c, t) ==
  LET ch == IF c.sf THEN x.a - t ELSE x.a - t - c.cf IN
  IF ch < MinViable(c) THEN 0 ELSE ch
RecalcWaste(x, c, t) == x.iw + (IF Change(x, c, t) > 0 THEN CostOfChange(c) ELSE x.a - t)
\* objective of the exhaustive searches; the other two have none (0)
Objective(x, c, t) == IF c.al = "bnb" THEN BnBWaste(x, t) ELSE IF c.al = "cg" THEN x.w ELSE 0

\* verdict table: one entry per feasible subset:
\*   <<mask, selected amount, effective value, value, weight, waste after RecalculateWaste, objective, optimal?, optimal-pc?>>
\* optimal    = no feasible subset has a strictly lower objective (brute force over all subsets): the statement of C40;
\* optimal-pc = no feasible *prefix-closed* subset has a strictly lower objective. This weaker flag exists only to classify a
\*   (vacuously true when no feasible subset is prefix-closed)
\*   violation: SelectCoinsBnB never evaluates a subset that is not prefix-closed in its sort order ("skip a UTXO whose predecessor
\*   was omitted and has the same effective value"), which is sound for the waste but ignores that the skipped UTXO may be the
\*   only one that fits under the weight cap (known finding bnb-cloneskip-weightcap). A completed search whose result is
\*   optimal-pc but not optimal is reported under that key; one that is not even optimal-pc is a different defect.
SetMin(X) == CHOOSE m \in X : \A k \in X : k >= m
Table(sts, c, t, mw) ==
  LET feas == {S \in DOMAIN sts : Feasible(sts[S], c, t, mw)} IN
  IF feas = {} THEN {} ELSE
  LET best == SetMin({Objective(sts[S], c, t) : S \in feas})
      pcs == {S \in feas : sts[S].pc}
      bestpc == IF pcs = {} THEN best ELSE SetMin({Objective(sts[S], c, t) : S \in pcs}) IN   \* (unused when pcs = {})
  { LET x == sts[S] IN << x.m, x.a, x.e, x.v, x.w, RecalcWaste(x, c, t), Objective(x, c, t), Objective(x, c, t) = best,
                          pcs = {} \/ Objective(x, c, t) <= bestpc >> : S \in feas }

\* ------------------------------------------------------------------------------------------------------------------------
\* The two exhaustive searches AS CODED, with the attempt bound (TOTAL_TRIES) as a parameter.
\* One iteration of the loop of CoinGrinder / SelectCoinsBnB = one application of CGIter / BnBIter; the loop checks the bound
\* right after the evaluation of the new selection and before backtracking.  So a run with bound T >= 1 is a prefix of the
\* unbounded run: with F = the number of iterations of the unbounded run,
\*     T <= F : the search stops after attempt T with the best selection found so far, SetAlgoCompleted(false)
\*     T >  F : the search ends by itself after attempt F,                               SetAlgoCompleted(true)
\* Run(...) returns the sequence of "best so far" records after each attempt of the unbounded run; the harness runs the real
\* code with every bound 1 .. 2^(n+1)+1 and compares completed flag, attempt count and the selection's amount / weight (rows whose
\* sort order is determined, Det*), and TLC decides on the model: the selection a completed search returns is optimal (AsCoded*).
LOCAL INSTANCE SequencesExt
Huge == 2000000000                       \* stands for MAX_MONEY / INT_MAX (beyond every sum of the domain)
CeilDiv(x, y) == (x + y - 1) \div y
\* positions 1..n in the algorithm's sort order: amount descending, then key ascending (waste for BnB, weight for CoinGrinder),
\* remaining ties by pool index (std::sort leaves them unspecified: see DetCG / DetBnB)
SortOrder(n, A, K) ==
  LET Before(j, i) == A[j] > A[i] \/ (A[j] = A[i] /\ K[j] < K[i]) \/ (A[j] = A[i] /\ K[j] = K[i] /\ j < i)
      rank == TLCEval([i \in 1..n |-> 1 + Cardinality({j \in 1..n : Before(j, i)})])
  IN [r \in 1..n |-> CHOOSE i \in 1..n : rank[i] = r]
\* search context: everything in sort order.  a: amounts, w: weights, x: input waste (fee - long-term fee), la: lookahead (sum of the
\* amounts after a position), mt: minimum weight after a position, tt: amount to reach, up: upper end of the window (BnB)
CtxBase(p, c) ==
  LET n == Len(p)  A0 == TLCEval(AmtF(p, c))  W0 == TLCEval(WF(p))  F0 == TLCEval(FeeF(p, c))  L0 == TLCEval(LTF(p))
      X0 == TLCEval([i \in 1..n |-> F0[i] - L0[i]])
      ord == TLCEval(SortOrder(n, A0, IF c.al = "bnb" THEN X0 ELSE W0))
      a == TLCEval([r \in 1..n |-> A0[ord[r]]])  w == TLCEval([r \in 1..n |-> W0[ord[r]]])  x == TLCEval([r \in 1..n |-> X0[ord[r]]])
  IN [n |-> n, a |-> a, w |-> w, x |-> x,
      la |-> TLCEval([r \in 1..n |-> FoldLeft(LAMBDA acc, q : IF q > r THEN acc + a[q] ELSE acc, 0, [q \in 1..n |-> q])]),
      mt |-> TLCEval([r \in 1..n |-> FoldLeft(LAMBDA acc, q : IF q > r /\ w[q] < acc THEN w[q] ELSE acc, Huge, [q \in 1..n |-> q])]),
      total |-> FoldLeft(LAMBDA acc, q : acc + a[q], 0, [q \in 1..n |-> q]),
      high |-> n >= 1 /\ x[1] > 0]                                  \* is_feerate_high, read off the first UTXO
Ctx(b, c, t, mw) == [n |-> b.n, a |-> b.a, w |-> b.w, x |-> b.x, la |-> b.la, mt |-> b.mt, total |-> b.total, high |-> b.high,
                     tt |-> Need(c, t), up |-> t + CostOfChange(c), t |-> t, mw |-> mw]
\* the clone-skipping loop after a SHIFT: cg: same amount; bnb (after the fix f3914fc): same amount and not lighter
RECURSIVE SkipClones(_, _, _)
SkipClones(cx, bnb, nx) ==
  IF cx.a[nx - 1] = cx.a[nx] /\ (bnb => cx.w[nx - 1] <= cx.w[nx])
  THEN IF nx >= cx.n THEN [next |-> nx, shift |-> TRUE] ELSE SkipClones(cx, bnb, nx + 1)
  ELSE [next |-> nx, shift |-> FALSE]
\* the `while (should_shift)` loop
RECURSIVE Backtrack(_, _, _)
Backtrack(cx, bnb, s) ==
  IF s.sel = <<>> THEN [s EXCEPT !.done = TRUE]
  ELSE LET last == s.sel[Len(s.sel)]
           s2 == [s EXCEPT !.sel = Front(s.sel), !.amt = s.amt - cx.a[last], !.wt = s.wt - cx.w[last], !.ws = s.ws - cx.x[last]]
           sk == SkipClones(cx, bnb, last + 1)
       IN IF sk.shift THEN Backtrack(cx, bnb, [s2 EXCEPT !.next = sk.next]) ELSE [s2 EXCEPT !.next = sk.next]
SearchInit(cx, bw0, bo0) == [sel |-> <<>>, next |-> 1, amt |-> 0, wt |-> 0, ws |-> 0, best |-> <<>>, bw |-> bw0, bo |-> bo0, ba |-> 0,
                             done |-> FALSE, tr |-> <<>>]
\* common tail of an iteration: record the best so far (this is where the bound is checked), CUT at the end of the pool, backtrack
Finish(cx, bnb, s, sel1, amt1, wt1, ws1, cut0, shift0, best1, bw1, bo1, ba1) ==
  LET tail == s.next
      cut == cut0 \/ tail = cx.n
      s1 == [sel |-> IF cut THEN s.sel ELSE sel1, next |-> tail + 1, amt |-> IF cut THEN s.amt ELSE amt1, wt |-> IF cut THEN s.wt ELSE wt1,
             ws |-> IF cut THEN s.ws ELSE ws1, best |-> best1, bw |-> bw1, bo |-> bo1, ba |-> ba1, done |-> FALSE,
             tr |-> Append(s.tr, IF best1 = <<>> THEN <<0, 0>> ELSE <<bw1, ba1>>)]
  IN IF cut \/ shift0 THEN Backtrack(cx, bnb, s1) ELSE s1
\* CoinGrinder: bw = best_selection_weight (starts at max_selection_weight), bo = best_selection_amount, ba = amount of the best
CGIter(cx, s, i) ==
  IF s.done THEN s ELSE
  LET tail == s.next
      sel1 == Append(s.sel, tail)  amt1 == s.amt + cx.a[tail]  wt1 == s.wt + cx.w[tail]
      insufficient == amt1 + cx.la[tail] < cx.tt
      heavier == ~insufficient /\ wt1 > s.bw
      solution == ~insufficient /\ ~heavier /\ amt1 >= cx.tt
      hopeless == ~insufficient /\ ~heavier /\ ~solution /\ s.best # <<>>
                  /\ wt1 + cx.mt[tail] * CeilDiv(cx.tt - amt1, cx.a[tail]) > s.bw
      minimal == cx.w[tail] <= cx.mt[tail]
      better == solution /\ (wt1 < s.bw \/ (wt1 = s.bw /\ amt1 < s.bo))
  IN Finish(cx, FALSE, s, sel1, amt1, wt1, 0, insufficient \/ ((heavier \/ hopeless) /\ minimal), solution \/ ((heavier \/ hopeless) /\ ~minimal),
            IF better THEN sel1 ELSE s.best, IF better THEN wt1 ELSE s.bw, IF better THEN amt1 ELSE s.bo, IF better THEN amt1 ELSE s.ba)
\* SelectCoinsBnB: bo = best_waste (starts at MAX_MONEY), bw = weight of the best, ba = its amount
BnBIter(cx, s, i) ==
  IF s.done THEN s ELSE
  LET tail == s.next
      sel1 == Append(s.sel, tail)  amt1 == s.amt + cx.a[tail]  wt1 == s.wt + cx.w[tail]  ws1 == s.ws + cx.x[tail]
      insufficient == amt1 + cx.la[tail] < cx.tt
      tooheavy == ~insufficient /\ wt1 > cx.mw
      overshot == ~insufficient /\ ~tooheavy /\ amt1 > cx.up
      wasteful == ~insufficient /\ ~tooheavy /\ ~overshot /\ cx.high /\ ws1 > s.bo
      solution == ~insufficient /\ ~tooheavy /\ ~overshot /\ ~wasteful /\ amt1 >= cx.tt
      waste1 == ws1 + amt1 - cx.t
      better == solution /\ waste1 <= s.bo
  IN Finish(cx, TRUE, s, sel1, amt1, wt1, ws1, insufficient, tooheavy \/ overshot \/ wasteful \/ solution,
            IF better THEN sel1 ELSE s.best, IF better THEN wt1 ELSE s.bw, IF better THEN waste1 ELSE s.bo, IF better THEN amt1 ELSE s.ba)
\* the unbounded run: <<weight, amount>> of the best selection after each attempt (<<0, 0>> = none yet); no attempt at all when the
\* whole pool cannot reach the amount ("Insufficient funds")
Run(b, c, t, mw) ==
  LET cx == TLCEval(Ctx(b, c, t, mw)) IN
  IF cx.total < cx.tt THEN <<>>
  ELSE IF c.al = "cg" THEN FoldLeft(LAMBDA s, i : CGIter(cx, s, i), SearchInit(cx, mw, Huge), [i \in 1..Pow2(cx.n) |-> i]).tr
  ELSE FoldLeft(LAMBDA s, i : BnBIter(cx, s, i), SearchInit(cx, 0, Huge), [i \in 1..Pow2(cx.n) |-> i]).tr
\* is the sort order (hence the run) determined?  Groups that tie on amount and sort key must be interchangeable for the search:
\* CoinGrinder looks at amount and weight only; BnB at amount, waste and weight
DetRun(p, c) ==
  LET A0 == AmtF(p, c)  W0 == WF(p)  F0 == FeeF(p, c)  L0 == LTF(p) IN
  c.al = "cg" \/ \A i, j \in Idx(p) : (A0[i] = A0[j] /\ F0[i] - L0[i] = F0[j] - L0[j]) => W0[i] = W0[j]

\* what the harness needs to build the pool: per group, its coins <<value, fee incl. bump, vbytes, bump fee>> and the group
\* attributes the model assumes <<amount, effective value, fee, long-term fee, weight, value>>
CoinRow(c, r) == <<c.e + r * c.b + c.x, r * c.b + c.x, c.b, c.x>>
GroupRows(p, c) == [i \in Idx(p) |-> LET g == Catalogue[p[i]] IN
                      [c |-> [k \in 1..Len(g) |-> CoinRow(g[k], c.r)],
                       a |-> <<GAmt(g, c.r, c.sf), GEff(g), GFee(g, c.r), GLT(g), GW(g), GVal(g, c.r)>>]]

\* the searches as coded are evaluated for this call (configuration switch: the largest table keeps to the relation)
HasRun == cmb.al \in RunAlgos
\* ---- enumeration of calls
Offerable(p, c) == c.al = "knap" \/ \A i \in Idx(p) : AmtF(p, c)[i] > 0      \* "positive_group" for all but the knapsack solver
Offsets(c) == IF c.al = "bnb" THEN {0, CostOfChange(c)}            \* both ends of the window
              ELSE IF c.al = "cg" THEN {ChangeTarget(c)}
              ELSE IF c.al = "srd" THEN {0, U + c.cf}              \* SRD's internal reserve
              ELSE {0, ChangeTarget(c)}
Init == /\ pool \in Pools /\ cmb \in Combos /\ Offerable(pool, cmb)
        /\ st = <<>> /\ ga = <<>> /\ tgt = 0 /\ maxw = 0 /\ phase = "new" /\ tab = {} /\ run = <<>> /\ sb = <<>>
\* (computed in an action, not in Init: TLC evaluates actions on all workers and caches LET values there)
Prepare == /\ phase = "new" /\ phase' = "pool" /\ st' = Stats(pool, cmb) /\ ga' = GroupRows(pool, cmb)
           /\ sb' = (IF HasRun THEN CtxBase(pool, cmb) ELSE <<>>) /\ UNCHANGED <<pool, cmb, tgt, maxw, tab, run>>
\* the (target, weight cap) pairs of a pool: targets around the sum of every subset S (shifted by the algorithm's offsets), caps
\* around the weight of S (or of every subset), and a cap that never binds
Calls(sts, c) ==
  { tm \in { << sts[S].a + d - off, IF dw = 1 THEN BigW ELSE sts[S2].w + dw >> :
             S \in DOMAIN sts, d \in {-1, 0, 1}, off \in Offsets(c), S2 \in DOMAIN sts, dw \in {-1, 0, 1} } : tm[1] >= 1 /\ tm[2] >= 0 }
CallsCoupled(sts, c) ==
  { tm \in { << sts[S].a + d - off, IF dw = 1 THEN BigW ELSE sts[S].w + dw >> :
             S \in DOMAIN sts, d \in {-1, 0, 1}, off \in Offsets(c), dw \in {-1, 0, 1} } : tm[1] >= 1 /\ tm[2] >= 0 }
MakeRow ==
  /\ phase = "pool"
  /\ \E tm \in (IF WCross THEN Calls(st, cmb) ELSE CallsCoupled(st, cmb)) :
       /\ tgt' = tm[1] /\ maxw' = tm[2] /\ phase' = "row"
       /\ tab' = Table(st, cmb, tm[1], tm[2])
       /\ run' = IF HasRun THEN Run(sb, cmb, tm[1], tm[2]) ELSE <<>>
  /\ UNCHANGED <<pool, cmb, st, ga, sb>>
Next == Prepare \/ MakeRow
Spec == Init /\ [][Next]_vars

\* ---- what TLC decides on every enumerated call
IsRow == phase = "row"
TypeOK == /\ Len(pool) \in MinN..MaxN /\ (\A i \in Idx(pool) : pool[i] \in TypeIds) /\ phase \in {"new", "pool", "row"}
          /\ IsRow => tgt >= 1 /\ maxw >= 0
\* an optimum exists whenever anything is feasible, and all optima share one objective value
OptimumExists == IsRow /\ tab # {} => \E x \in tab : x[8]
OptimaAgree == IsRow => \A x, y \in tab : x[8] /\ y[8] => x[7] = y[7]
NonOptimaWorse == IsRow => \A x, y \in tab : x[8] /\ ~y[8] => y[7] > x[7]
\* the classification flag is weaker than optimality, and coincides with it where the weight cap cannot bind or nothing ties
OptPcWeaker == IsRow => \A x \in tab : x[8] => x[9]
\* (no two groups with the same amount and input waste but different weights: their sort order is unspecified)
NoTies == \A i, j \in Idx(pool) : i < j => ~(ga[i].a[1] = ga[j].a[1] /\ ga[i].a[3] - ga[i].a[4] = ga[j].a[3] - ga[j].a[4] /\ ga[i].a[5] # ga[j].a[5])
OptPcSameWithoutCap == IsRow /\ maxw = BigW /\ cmb.al = "bnb" /\ NoTies => \A x \in tab : x[9] => x[8]
\* every admitted subset covers the target with its selection amount and respects the cap (the statement of C40)
Admitted == IsRow => \A x \in tab : x[2] >= tgt /\ x[5] <= maxw /\ (cmb.al = "bnb" => x[2] <= tgt + CostOfChange(cmb)) /\ x[1] >= 1
\* a branch-and-bound solution never creates change under the wallet's parameter relation, so the waste the wallet later
\* computes for it (RecalculateWaste) is the search objective
BnBIsChangeless == IsRow /\ cmb.al = "bnb" => \A x \in tab : x[6] = x[7]
\* the selection amount is the effective value unless the fee is subtracted from the outputs
AmountIsEffective == IsRow /\ ~cmb.sf => \A x \in tab : x[2] = x[3]
\* a CoinGrinder solution also satisfies SRD's reserve (same change parameters): comparable constraint sets
CGCoversReserve == IsRow /\ cmb.al = "cg" => \A x \in tab : x[2] >= tgt + U + cmb.cf

\* ---- the searches as coded (any attempt bound): what a completed search returns is optimal per the exhaustive definition
Searched == IsRow /\ HasRun
\* the unbounded run ends by itself within 2^n - 1 attempts (every attempt evaluates a different non-empty subset)
RunEnds == Searched => Len(run) < Pow2(Len(pool))
\* nothing admitted: the completed search returns nothing; something admitted: CoinGrinder returns a minimum-weight admitted subset
AsCodedCG == Searched /\ cmb.al = "cg" =>
  LET fin == IF run = <<>> THEN <<0, 0>> ELSE run[Len(run)] IN
  IF tab = {} THEN fin = <<0, 0>> ELSE \E x \in tab : x[8] /\ x[5] = fin[1] /\ x[2] = fin[2]
\* branch-and-bound may miss solutions (it is allowed to fail), but what a completed search returns is admitted and waste-optimal
AsCodedBnB == Searched /\ cmb.al = "bnb" /\ DetRun(pool, cmb) =>
  LET fin == IF run = <<>> THEN <<0, 0>> ELSE run[Len(run)] IN
  fin # <<0, 0>> => \E x \in tab : x[8] /\ x[5] = fin[1] /\ x[2] = fin[2]
\* the best-so-far only improves, and every intermediate best is admitted (a cut-short search still returns a valid selection)
AsCodedValid == Searched => \A i \in 1..Len(run) : run[i] # <<0, 0>> => \E x \in tab : x[5] = run[i][1] /\ x[2] = run[i][2]

EmitRow ==
  IsRow => VFRow([al |-> cmb.al, r |-> cmb.r, sf |-> cmb.sf, cf |-> cmb.cf, coc |-> CostOfChange(cmb), mvc |-> MinViable(cmb),
                  ct |-> ChangeTarget(cmb), lt |-> LTRate, t |-> tgt, mw |-> maxw, p |-> pool,
                  g |-> ga, run |-> run, det |-> HasRun /\ DetRun(pool, cmb),
                  fs |-> tab])
====
