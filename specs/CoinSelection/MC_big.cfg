CONSTANTS
  Tier = "few"
  MinN = 5
  MaxN = 6
  TypeIds = {1, 2, 3, 4, 11}
  RunAlgos = {"bnb", "cg"}
  WCross = FALSE
INIT Init
NEXT Next
INVARIANTS TypeOK OptimumExists OptimaAgree NonOptimaWorse OptPcWeaker OptPcSameWithoutCap Admitted BnBIsChangeless AmountIsEffective CGCoversReserve RunEnds AsCodedCG AsCodedBnB AsCodedValid EmitRow
CHECK_DEADLOCK FALSE
