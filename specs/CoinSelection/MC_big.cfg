CONSTANTS
  Tier = "few"
  MinN = 5
  MaxN = 6
  TypeIds = {1, 2, 3, 4, 11}
  WCross = FALSE
INIT Init
NEXT Next
INVARIANTS TypeOK OptimumExists OptimaAgree NonOptimaWorse OptPcWeaker OptPcSameWithoutCap Admitted BnBIsChangeless AmountIsEffective CGCoversReserve EmitRow
CHECK_DEADLOCK FALSE
