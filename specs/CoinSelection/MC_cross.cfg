CONSTANTS
  Tier = "few"
  MinN = 1
  MaxN = 3
  TypeIds = {1, 2, 3, 4, 5, 6, 7, 8, 10, 11, 12}
  RunAlgos = {"bnb", "cg"}
  WCross = TRUE
INIT Init
NEXT Next
INVARIANTS TypeOK OptimumExists OptimaAgree NonOptimaWorse OptPcWeaker OptPcSameWithoutCap Admitted BnBIsChangeless AmountIsEffective CGCoversReserve RunEnds AsCodedCG AsCodedBnB AsCodedValid EmitRow
CHECK_DEADLOCK FALSE
