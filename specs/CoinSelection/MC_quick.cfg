CONSTANTS
  Tier = "quick"
  MinN = 0
  MaxN = 3
  TypeIds = {1, 2, 3, 4, 5, 6, 7, 8, 9, 10}
  RunAlgos = {"cg"}
  WCross = FALSE
INIT Init
NEXT Next
INVARIANTS TypeOK OptimumExists OptimaAgree NonOptimaWorse OptPcWeaker OptPcSameWithoutCap Admitted BnBIsChangeless AmountIsEffective CGCoversReserve RunEnds AsCodedCG AsCodedBnB AsCodedValid EmitRow
CHECK_DEADLOCK FALSE
