CONSTANTS
  TxU <- TxUDef
  Coins <- CoinsDef
  H0 = 104
  FlagHeights <- FH1
  Active <- ActEncW
  Lists <- ListsEncW
  Acts <- AllActs
  MaxSteps = 3
  KeyMode = "sig_noenc"
INIT Init
NEXT Next
VIEW View0
INVARIANTS Agree ChainValid PoolValid
CHECK_DEADLOCK FALSE
