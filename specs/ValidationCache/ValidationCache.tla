---- MODULE ValidationCache ----
(***************************************************************************)
(* C13: the script-execution cache and the signature cache never change a  *)
(* verdict.  A regtest node over a fixed universe of transactions:         *)
(*   Submit / TestAccept  MemPoolAccept: PreChecks, PolicyScriptChecks     *)
(*                        (STANDARD flags, stores signatures only), then   *)
(*                        ConsensusScriptChecks (flags of the tip block,   *)
(*                        stores signatures and the execution entry)       *)
(*   Mine                 ProcessNewBlock of a block on the tip:           *)
(*                        ConnectBlock consults both caches and stores     *)
(*                        nothing (fJustCheck = false)                     *)
(*   TestBlock            TestBlockValidity: ConnectBlock(fJustCheck=true),*)
(*                        the only block path that inserts                 *)
(*   Invalidate           disconnects the tip; its transactions go back    *)
(*                        through MemPoolAccept at the lower height        *)
(* as src/validation.cpp (CheckInputScripts) and src/script/sigcache.cpp   *)
(* do it.  Script verdicts: a function of the class of the spent output,   *)
(* the witness variant of the spender, its signature checks, and the flag  *)
(* set; block flags depend on the height (FlagHeights).                    *)
(* Every action computes its verdict twice: through the caches, and        *)
(* cache-free (the Truth* operators).  `agree` records whether they were   *)
(* equal; the property is the invariant Agree.  KeyMode # "full" are       *)
(* deliberately broken cache keys (negative controls of this model).       *)
(*                                                                         *)
(* Outpoints: <<0, i>> = funding coin i (class Coins[i]); <<d, 1>> = the   *)
(* single spendable output (anyone-can-spend) of the transactions with     *)
(* txid d.  TxU[t] = [tid, ins, wok, sigs]: t is the wtxid, tid the txid   *)
(* (twins share it and differ only in the witness), wok = the non-         *)
(* signature part of the witness is satisfying, sigs = the signature       *)
(* checks the script performs in order, each [sp, sd, p]: a signature made *)
(* with key sp over the digest sd, checked against public key p in a given *)
(* ENCODING and this transaction's digest (see SigValid below).            *)
(***************************************************************************)
EXTENDS Integers, Sequences, FiniteSets, TLC, VF
CONSTANTS TxU, Coins, H0, FlagHeights,
          Active,     \* the transactions submitted on their own
          Lists,      \* block contents
          Acts,       \* enabled action kinds
          MaxSteps, KeyMode
VARIABLES chain,      \* blocks above the base tip, each a sequence of wtxids
          pool,       \* mempool: set of wtxids
          ec, sc,     \* script-execution cache, signature cache
          k,          \* number of calls so far
          agree,      \* the last action's verdict through the caches = its cache-free verdict
          lastAct, lastRes
node == <<chain, pool, ec, sc>>
vars == <<node, k, agree, lastAct, lastRes>>
View0 == <<node, k, agree>>

\* ------------------------------------------------------------------ flags
FlagNames == DOMAIN FlagHeights
ConsFlags(h) == {f \in FlagNames : h >= FlagHeights[f]}          \* GetBlockScriptFlags of a block at height h (soft-fork part)
Standard == FlagNames \cup {"POLICY"}                            \* STANDARD_SCRIPT_VERIFY_FLAGS: every consensus flag plus policy-only ones
ClsOK(cls, F) == CASE cls = "fail" -> FALSE
                   [] cls = "cltv" -> "CLTV" \notin F            \* OP_1 OP_CLTV OP_DROP OP_TRUE spent with nLockTime 0: a NOP before activation
                   [] cls = "csv"  -> "CSV" \notin F             \* the same with OP_CSV, spender version 1
                   [] cls = "nopx" -> "POLICY" \notin F          \* OP_NOP4 OP_TRUE: DISCOURAGE_UPGRADABLE_NOPS is policy only
                   [] OTHER -> TRUE                              \* "true", and the classes decided by witness / signatures
\* the flag sets a lookup can be made under
AllFlagSets == {Standard} \cup {ConsFlags(h) : h \in H0..(H0 + MaxSteps + 1)}

\* ------------------------------------------------------------------ transactions
Tid(t) == TxU[t].tid
OutOf(t) == <<Tid(t), 1>>
InsSet(t) == {TxU[t].ins[j] : j \in 1..Len(TxU[t].ins)}
ClsOf(op) == IF op[1] = 0 THEN Coins[op[2]] ELSE "true"
ToSet(s) == {s[i] : i \in 1..Len(s)}
\* Dg(t): the data the signatures of t commit to (the transaction without scriptSigs and witnesses).  Witness twins share txid and
\* digest; scriptSig twins (P2SH spends that differ only in the pushed public key) share the digest but not the txid.  Two
\* transactions spend the same outpoint only if they are such twins.
Dg(t) == TxU[t].dg
ASSUME \A a, b \in 1..Len(TxU) : /\ (Tid(a) = Tid(b) => Dg(a) = Dg(b))
                                  /\ (Dg(a) = Dg(b) => TxU[a].ins = TxU[b].ins /\ TxU[a].sv = TxU[b].sv)
                                  /\ (Dg(a) # Dg(b) => InsSet(a) \cap InsSet(b) = {})
\* soft forks only restrict: STANDARD-valid implies valid under every consensus flag set
ASSUME \A i \in 1..Len(Coins), F \in AllFlagSets : ClsOK(Coins[i], Standard) => ClsOK(Coins[i], F)

\* A signature check g = [sp, sd, sht, senc, p, enc, ht]: a signature made with key sp over the digest of Dg = sd under hash type sht,
\* serialised with a low or a high S (senc), is checked against public key p GIVEN IN ENCODING enc, the hash type byte pushed with
\* it being ht.  Encodings of a key with coordinates (X, Y):
\*   "c"  02/03|X   "u"  04|X|Y   "h"  06/07|X|Y with the header matching Y's parity          -- all three parse to the same point
\*   "hx" 06/07|X|Y with the wrong parity header     "ux" 04|X|Y' with Y' off the curve (same low bit as Y)   -- rejected by the parser
\* What the interpreter checks before it calls the signature checker (CheckSignatureEncoding / CheckPubKeyEncoding): policy only.
GoodEnc == {"c", "u", "h"}
PreOK(t, g, F) == "POLICY" \in F => /\ g.senc = "low"                                    \* LOW_S
                                      /\ g.enc \in {"c", "u", "ux"}                        \* STRICTENC: 33 bytes 02/03 or 65 bytes 04
                                      /\ (TxU[t].sv = "wit" => g.enc = "c")                \* WITNESS_PUBKEYTYPE
\* what CPubKey::Verify decides: the key parses, and the signature is one by that key over this transaction's digest and hash type
SigValid(t, g) == g.sp = g.p /\ g.sd = Dg(t) /\ g.sht = g.ht /\ g.enc \in GoodEnc
PlainOK(t, F) == TxU[t].wok /\ \A op \in InsSet(t) : ClsOK(ClsOf(op), F)
\* the cache-free script verdict of transaction t under flags F
ScriptsTruth(t, F) == PlainOK(t, F) /\ \A i \in 1..Len(TxU[t].sigs) : PreOK(t, TxU[t].sigs[i], F) /\ SigValid(t, TxU[t].sigs[i])

\* ------------------------------------------------------------------ the caches
\* SignatureCache entry = H(sighash, public key bytes as pushed, signature bytes without the hash type)
SKey(t, g) == [s |-> <<g.sp, g.sd, g.sht, g.senc>>,
               p |-> CASE KeyMode = "sig_nopk" -> <<"any", "c">>
                       [] KeyMode = "sig_noenc" -> <<g.p, "c">>          \* the key normalised to (parity, X): every encoding of it collides
                       [] OTHER -> <<g.p, g.enc>>,
               d |-> IF KeyMode = "sig_nodigest" THEN <<0, "all">> ELSE <<Dg(t), g.ht>>]
\* Erasure: CuckooCache::contains(e, erase = TRUE) only marks the entry as collectable; it stays visible to later lookups until its
\* slot is needed, which never happens at these loads.  Observably the caches only grow, and that is what is modelled.
\* CachingTransactionSignatureChecker::VerifyECDSASignature, for the checks of one script in order (stops at the first failure)
RECURSIVE SigRun(_, _, _, _, _)
SigRun(t, gs, F, store, S) ==
  IF gs = <<>> THEN [ok |-> TRUE, sc |-> S]
  ELSE LET g == Head(gs)
           e == SKey(t, g)
       IN IF ~PreOK(t, g, F) THEN [ok |-> FALSE, sc |-> S]    \* the interpreter fails before the checker is asked
          ELSE IF e \in S THEN SigRun(t, Tail(gs), F, store, S)      \* Get(entry, erase = !store): see the note on erasure above
          ELSE IF SigValid(t, g) THEN SigRun(t, Tail(gs), F, store, IF store THEN S \cup {e} ELSE S)
          ELSE [ok |-> FALSE, sc |-> S]
\* script-execution cache entry = H(wtxid, flags)
EKey(t, F) == [w |-> IF KeyMode = "txid" THEN Tid(t) ELSE t, f |-> IF KeyMode = "noflags" THEN {} ELSE F]
EKeyStore(t, F, path) == IF KeyMode = "blockstd" /\ path = "block" THEN EKey(t, Standard) ELSE EKey(t, F)
\* CheckInputScripts(tx, flags, cacheSigStore, cacheFullScriptStore) with inline checks (no worker threads)
CheckInputs(t, F, storeS, storeE, E, S, path) ==
  LET e == EKey(t, F) IN
  IF e \in E THEN [ok |-> TRUE, ec |-> E, sc |-> S]              \* contains(entry, erase = !cacheFullScriptStore)
  ELSE IF ~PlainOK(t, F) THEN [ok |-> FALSE, ec |-> E, sc |-> S]
  ELSE LET r == SigRun(t, TxU[t].sigs, F, storeS, S) IN
       [ok |-> r.ok, ec |-> IF r.ok /\ storeE THEN E \cup {EKeyStore(t, F, path)} ELSE E, sc |-> r.sc]

\* ------------------------------------------------------------------ chain and UTXO set (as sets of outpoints)
BaseUtxo == {<<0, i>> : i \in 1..Len(Coins)}
RECURSIVE ApplyTxs(_, _)
ApplyTxs(txs, V) == IF txs = <<>> THEN V ELSE ApplyTxs(Tail(txs), (V \ InsSet(Head(txs))) \cup {OutOf(Head(txs))})
RECURSIVE UtxoOf(_)
UtxoOf(c) == IF c = <<>> THEN BaseUtxo ELSE ApplyTxs(c[Len(c)], UtxoOf(SubSeq(c, 1, Len(c) - 1)))
Height(c) == H0 + Len(c)

\* ConnectBlock for a block with transactions txs on view V under flags F; store = fJustCheck.  BIP30 first, then per transaction:
\* inputs exist, scripts.  Result [ok, why, ec, sc]
RECURSIVE ConnTxs(_, _, _, _, _, _)
ConnTxs(txs, V, F, store, E, S) ==
  IF txs = <<>> THEN [ok |-> TRUE, why |-> "ok", ec |-> E, sc |-> S]
  ELSE LET t == Head(txs) IN
       IF ~(InsSet(t) \subseteq V) THEN [ok |-> FALSE, why |-> "noinputs", ec |-> E, sc |-> S]
       ELSE LET c == CheckInputs(t, F, store, store, E, S, "block") IN
            IF ~c.ok THEN [ok |-> FALSE, why |-> "script", ec |-> c.ec, sc |-> c.sc]
            ELSE ConnTxs(Tail(txs), (V \ InsSet(t)) \cup {OutOf(t)}, F, store, c.ec, c.sc)
Block(txs, V, F, store, E, S) ==
  IF \E i \in 1..Len(txs) : OutOf(txs[i]) \in V THEN [ok |-> FALSE, why |-> "bip30", ec |-> E, sc |-> S]
  ELSE ConnTxs(txs, V, F, store, E, S)
\* the same, cache free
RECURSIVE TruthTxs(_, _, _)
TruthTxs(txs, V, F) ==
  IF txs = <<>> THEN "ok"
  ELSE LET t == Head(txs) IN
       IF ~(InsSet(t) \subseteq V) THEN "noinputs"
       ELSE IF ~ScriptsTruth(t, F) THEN "script"
       ELSE TruthTxs(Tail(txs), (V \ InsSet(t)) \cup {OutOf(t)}, F)
TruthBlock(txs, V, F) == IF \E i \in 1..Len(txs) : OutOf(txs[i]) \in V THEN "bip30" ELSE TruthTxs(txs, V, F)

\* MemPoolAccept::AcceptSingleTransaction for t on a chain of height h with UTXO set V and pool P.  Result [v, ec, sc]
Avail(V, P) == V \cup {OutOf(p) : p \in P}
PreCheck(t, V, P) ==
  IF t \in P THEN "dup"                                         \* txn-already-in-mempool
  ELSE IF \E p \in P : Tid(p) = Tid(t) THEN "dup"               \* txn-same-nonwitness-data-in-mempool
  ELSE IF ~(InsSet(t) \subseteq Avail(V, P)) THEN "noinputs"    \* txn-already-known / bad-txns-inputs-missingorspent
  ELSE IF \E p \in P : InsSet(p) \cap InsSet(t) # {} THEN "conflict"   \* a scriptSig twin is in the pool: replacement at the same fee is refused (ReplacementChecks, before any script runs)
  ELSE "ok"
ATMP(t, h, V, P, E, S) ==
  LET pre == PreCheck(t, V, P) IN
  IF pre # "ok" THEN [v |-> pre, ec |-> E, sc |-> S]
  ELSE LET pol == CheckInputs(t, Standard, TRUE, FALSE, E, S, "mempool") IN                 \* PolicyScriptChecks
       IF ~pol.ok THEN [v |-> "script", ec |-> pol.ec, sc |-> pol.sc]
       ELSE LET con == CheckInputs(t, ConsFlags(h), TRUE, TRUE, pol.ec, pol.sc, "mempool") IN  \* ConsensusScriptChecks: flags of the tip
            [v |-> IF con.ok THEN "ok" ELSE "script", ec |-> con.ec, sc |-> con.sc]
TruthATMP(t, h, V, P) ==
  LET pre == PreCheck(t, V, P) IN
  IF pre # "ok" THEN pre ELSE IF ScriptsTruth(t, Standard) /\ ScriptsTruth(t, ConsFlags(h)) THEN "ok" ELSE "script"

\* pool transactions that (transitively) spend one of the outpoints ops: CTxMemPool::removeRecursive
RECURSIVE DescOf(_, _)
DescOf(P, ops) == LET kids == {p \in P : InsSet(p) \cap ops # {}} IN
                  IF kids = {} THEN {} ELSE kids \cup DescOf(P \ kids, {OutOf(p) : p \in kids})
\* MaybeUpdateMempoolForReorg: the disconnected block's transactions, in block order, through MemPoolAccept; a transaction
\* that fails takes its in-pool descendants with it.  Result [pool, ec, sc]; use = TRUE: through the caches
RECURSIVE Resurrect(_, _, _, _, _, _, _)
Resurrect(txs, h, V, P, E, S, use) ==
  IF txs = <<>> THEN [pool |-> P, ec |-> E, sc |-> S]
  ELSE LET t == Head(txs)
           a == IF use THEN ATMP(t, h, V, P, E, S) ELSE [v |-> TruthATMP(t, h, V, P), ec |-> E, sc |-> S]
       IN IF a.v = "ok" THEN Resurrect(Tail(txs), h, V, P \cup {t}, a.ec, a.sc, use)
          ELSE Resurrect(Tail(txs), h, V, P \ DescOf(P, {OutOf(t)}), a.ec, a.sc, use)

\* ------------------------------------------------------------------ actions
Init == /\ chain = <<>> /\ pool = {} /\ ec = {} /\ sc = {}
        /\ k = 0 /\ agree = TRUE
        /\ lastAct = <<"init">> /\ lastRes = <<"none">>

Submit(t, test) ==
  /\ (IF test THEN "test" ELSE "submit") \in Acts /\ t \in Active
  /\ LET V == UtxoOf(chain)
         a == ATMP(t, Height(chain), V, pool, ec, sc)
     IN /\ ec' = a.ec /\ sc' = a.sc
        /\ pool' = IF a.v = "ok" /\ ~test THEN pool \cup {t} ELSE pool
        /\ agree' = (a.v = TruthATMP(t, Height(chain), V, pool))
        /\ lastRes' = <<a.v>>
  /\ UNCHANGED chain
  /\ lastAct' = <<IF test THEN "test" ELSE "submit", t>>

Mine(txs) ==
  /\ "mine" \in Acts /\ txs \in Lists
  /\ LET V == UtxoOf(chain)
         F == ConsFlags(Height(chain) + 1)
         r == Block(txs, V, F, FALSE, ec, sc)
     IN /\ ec' = r.ec /\ sc' = r.sc
        /\ chain' = IF r.ok THEN Append(chain, txs) ELSE chain
        /\ pool' = IF r.ok THEN LET spent == UNION {InsSet(x) : x \in ToSet(txs)}                       \* removeForBlock: the block's own transactions
                                    tids == {Tid(x) : x \in ToSet(txs)}                                \* (by txid), conflicting spends and their descendants
                                    confl == {p \in pool : InsSet(p) \cap spent # {} /\ Tid(p) \notin tids}
                                IN {p \in pool : InsSet(p) \cap spent = {}} \ DescOf(pool, {OutOf(p) : p \in confl})
                    ELSE pool
        /\ agree' = (r.why = TruthBlock(txs, V, F))
        /\ lastRes' = <<r.why>>
  /\ lastAct' = <<"mine", txs>>

TestBlock(txs) ==
  /\ "testblock" \in Acts /\ txs \in Lists /\ txs # <<>>
  /\ LET V == UtxoOf(chain)
         F == ConsFlags(Height(chain) + 1)
         r == Block(txs, V, F, TRUE, ec, sc)
     IN /\ ec' = r.ec /\ sc' = r.sc
        /\ agree' = (r.why = TruthBlock(txs, V, F))
        /\ lastRes' = <<r.why>>
  /\ UNCHANGED <<chain, pool>>
  /\ lastAct' = <<"testblock", txs>>

Invalidate ==
  /\ "invalidate" \in Acts /\ chain # <<>>
  /\ LET c2 == SubSeq(chain, 1, Len(chain) - 1)
         txs == chain[Len(chain)]
         r == Resurrect(txs, Height(c2), UtxoOf(c2), pool, ec, sc, TRUE)
         tr == Resurrect(txs, Height(c2), UtxoOf(c2), pool, {}, {}, FALSE)
     IN /\ chain' = c2 /\ pool' = r.pool /\ ec' = r.ec /\ sc' = r.sc
        /\ agree' = (r.pool = tr.pool)
  /\ lastAct' = <<"invalidate">> /\ lastRes' = <<"none">>

Next == /\ k < MaxSteps /\ k' = k + 1
        /\ \/ \E t \in Active, test \in BOOLEAN : Submit(t, test)
           \/ \E txs \in Lists : Mine(txs) \/ TestBlock(txs)
           \/ Invalidate
Spec == Init /\ [][Next]_vars

\* ------------------------------------------------------------------ properties
\* C13: every verdict (mempool acceptance, block acceptance, resurrection after a reorg) equals the cache-free verdict
Agree == agree
\* the same, for every validation that could be requested next in the current state (either store mode, every flag set)
NextLookupsAgree == \A t \in Active, F \in AllFlagSets, st \in BOOLEAN : CheckInputs(t, F, st, st, ec, sc, "block").ok = ScriptsTruth(t, F)
\* what makes it true: the caches hold only true facts (meaningful for KeyMode = "full")
ExecCacheSound == \A e \in ec : ScriptsTruth(e.w, e.f)
SigCacheSound == \A e \in sc : e.s[1] = e.p[1] /\ e.s[2] = e.d[1] /\ e.s[3] = e.d[2] /\ e.p[2] \in GoodEnc
\* consequences: the active chain is valid by the cache-free rules, the pool holds only STANDARD-valid transactions
RECURSIVE ChainTruth(_)
ChainTruth(c) == c = <<>> \/ LET c2 == SubSeq(c, 1, Len(c) - 1) IN
                             ChainTruth(c2) /\ TruthBlock(c[Len(c)], UtxoOf(c2), ConsFlags(Height(c))) = "ok"
ChainValid == ChainTruth(chain)
PoolValid == \A p \in pool : ScriptsTruth(p, Standard) /\ InsSet(p) \subseteq Avail(UtxoOf(chain), pool)

\* ------------------------------------------------------------------ emission
\* injective (agree is TRUE in every state by the invariant); the harness compares tip and pool, and reports on ec and sc
Proj == [tip |-> Height(chain), chain |-> chain, k |-> k, pool |-> pool, ec |-> ec, sc |-> sc]
Emit == VFEdge(Proj, lastAct', lastRes', Proj')
Universe == [universe |-> TxU, coins |-> Coins, h0 |-> H0, flagheights |-> FlagHeights]
ASSUME VFRow(Universe)
====
