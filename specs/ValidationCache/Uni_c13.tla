---- MODULE Uni_c13 ----
(* The transaction universe of C13.  Funding coins (outputs of one funding transaction in the base chain), by script class:      *)
(*   true  OP_TRUE                        cltv  OP_1 OP_CHECKLOCKTIMEVERIFY OP_DROP OP_TRUE     csv   the same with OP_CHECKSEQUENCEVERIFY *)
(*   nopx  OP_NOP4 OP_TRUE                fail  OP_1 OP_VERIFY OP_0                             p2pk  <K1> OP_CHECKSIG              *)
(*   wsheq P2WSH(OP_1 OP_EQUAL)           wpkh  P2WPKH(K1)                                      ms    P2WSH(2 <K1> <K2> 2 OP_CHECKMULTISIG) *)
EXTENDS Integers, Sequences
CoinsDef == << "true", "cltv", "nopx", "wsheq", "wpkh", "wpkh", "ms", "fail", "p2pk", "csv", "true" >>
Plain(tid, op) == [tid |-> tid, ins |-> <<op>>, wok |-> TRUE, sigs |-> <<>>]
Sg(sp, sd, p) == [sp |-> sp, sd |-> sd, p |-> p]
TxUDef == <<
  Plain(1, <<0, 1>>),                                                                  \*  1 T : spends the OP_TRUE coin
  Plain(2, <<0, 2>>),                                                                  \*  2 L : violates CLTV (valid before activation only)
  Plain(3, <<0, 3>>),                                                                  \*  3 N : consensus valid, STANDARD invalid
  Plain(4, <<0, 4>>),                                                                  \*  4 W : P2WSH spend, satisfying witness
  [tid |-> 4, ins |-> << <<0, 4>> >>, wok |-> FALSE, sigs |-> <<>>],                   \*  5 W': same txid, witness does not satisfy the script
  [tid |-> 6, ins |-> << <<0, 5>> >>, wok |-> TRUE, sigs |-> <<Sg("K1", 6, "K1")>>],   \*  6 X : P2WPKH spend
  [tid |-> 7, ins |-> << <<0, 6>> >>, wok |-> TRUE, sigs |-> <<Sg("K1", 7, "K1")>>],   \*  7 Y : P2WPKH spend
  [tid |-> 7, ins |-> << <<0, 6>> >>, wok |-> TRUE, sigs |-> <<Sg("K1", 6, "K1")>>],   \*  8 Y': same txid as Y, carries X's signature (valid for another digest)
  [tid |-> 9, ins |-> << <<0, 7>> >>, wok |-> TRUE, sigs |-> <<Sg("K2", 9, "K2"), Sg("K1", 9, "K1")>>],   \*  9 M : 2-of-2, signatures of K1 and K2
  [tid |-> 9, ins |-> << <<0, 7>> >>, wok |-> TRUE, sigs |-> <<Sg("K1", 9, "K2"), Sg("K1", 9, "K1")>>],   \* 10 M': same txid, K1's signature twice
  Plain(11, <<0, 8>>),                                                                 \* 11 Z : always-failing script
  [tid |-> 12, ins |-> << <<0, 9>> >>, wok |-> TRUE, sigs |-> <<Sg("K1", 12, "K1")>>], \* 12 P : legacy P2PK spend
  Plain(13, <<1, 1>>),                                                                 \* 13 C : child of T
  Plain(14, <<0, 10>>),                                                                \* 14 V : violates CSV (valid before activation only)
  Plain(15, <<4, 1>>)                                                                  \* 15 CW: child of W / W'
>>
AllTx == 1..15
AllActs == {"submit", "test", "mine", "testblock", "invalidate"}
NoTest == {"submit", "mine", "testblock", "invalidate"}
\* scenario families: the transactions submitted on their own, and the block contents
ActFlags == {2, 3}
ListsFlags == { <<>>, <<2>>, <<3>> }
ActFlags2 == {2, 14}
ListsFlags2 == { <<>>, <<2>>, <<14>>, <<2, 14>> }
ActWit == {4, 5, 15}
ListsWit == { <<>>, <<4>>, <<5>>, <<4, 15>>, <<15>> }
ActSig == {6, 8, 9, 10}
ListsSig == { <<6>>, <<8>>, <<9>>, <<10>> }
ActMix == {1, 6, 8, 13}
ListsMix == { <<>>, <<1>>, <<6>>, <<8>>, <<1, 13>>, <<13>>, <<6, 8>> }
\* simulation: everything
ListsAll == { <<>> } \cup { <<t>> : t \in AllTx \ {11, 13, 15} } \cup { <<1, 13>>, <<4, 15>>, <<5, 15>>, <<2, 14>>, <<6, 8>>, <<9, 6>> }
FH1 == [CLTV |-> 106]
FH2 == [CLTV |-> 106, CSV |-> 107]
====
