---- MODULE Uni_c13 ----
(* The transaction universe of C13.  Funding coins (outputs of one funding transaction in the base chain), by script class:      *)
(*   true  OP_TRUE                        cltv  OP_1 OP_CHECKLOCKTIMEVERIFY OP_DROP OP_TRUE     csv   the same with OP_CHECKSEQUENCEVERIFY *)
(*   nopx  OP_NOP4 OP_TRUE                fail  OP_1 OP_VERIFY OP_0                             p2pk  <K1> OP_CHECKSIG              *)
(*   wsheq P2WSH(OP_1 OP_EQUAL)           wpkh  P2WPKH(K1)                                      ms    P2WSH(2 <K1> <K2> 2 OP_CHECKMULTISIG) *)
(*   wshck P2WSH(OP_CHECKSIG)             shck  P2SH(OP_CHECKSIG)    -- the spender pushes the public key, in an encoding of its choice      *)
(*   msenc 2 <K1 as "ux"> <K1 as "u"> 2 OP_CHECKMULTISIG (bare): one key twice, once in an encoding that does not parse                      *)
EXTENDS Integers, Sequences
CoinsDef == << "true", "cltv", "nopx", "wsheq", "wpkh", "wpkh", "ms", "fail", "p2pk", "csv", "true", "wshck", "shck", "msenc" >>
Plain(tid, op) == [tid |-> tid, dg |-> tid, sv |-> "base", ins |-> <<op>>, wok |-> TRUE, sigs |-> <<>>]
\* a signature by sp over digest sd (hash type ALL, low S) checked against key p in compressed encoding with hash type ALL ...
Sg(sp, sd, p) == [sp |-> sp, sd |-> sd, sht |-> "all", senc |-> "low", p |-> p, enc |-> "c", ht |-> "all"]
\* ... the same with the key in encoding e; with another hash type byte; with a high S
SgE(sp, sd, p, e) == [Sg(sp, sd, p) EXCEPT !.enc = e]
SgHt(sp, sd, p, h) == [Sg(sp, sd, p) EXCEPT !.ht = h]
SgHi(sp, sd, p) == [Sg(sp, sd, p) EXCEPT !.senc = "high"]
\* spends of the P2WSH(OP_CHECKSIG) coin (witness twins: one txid 16) and of the P2SH(OP_CHECKSIG) coin (scriptSig twins: one digest 23)
Wck(g) == [tid |-> 16, dg |-> 16, sv |-> "wit", ins |-> << <<0, 12>> >>, wok |-> TRUE, sigs |-> <<g>>]
Sck(tid, g) == [tid |-> tid, dg |-> 23, sv |-> "base", ins |-> << <<0, 13>> >>, wok |-> TRUE, sigs |-> <<g>>]
TxUDef == <<
  Plain(1, <<0, 1>>),                                                                  \*  1 T : spends the OP_TRUE coin
  Plain(2, <<0, 2>>),                                                                  \*  2 L : violates CLTV (valid before activation only)
  Plain(3, <<0, 3>>),                                                                  \*  3 N : consensus valid, STANDARD invalid
  Plain(4, <<0, 4>>),                                                                  \*  4 W : P2WSH spend, satisfying witness
  [tid |-> 4, dg |-> 4, sv |-> "base", ins |-> << <<0, 4>> >>, wok |-> FALSE, sigs |-> <<>>],                   \*  5 W': same txid, witness does not satisfy the script
  [tid |-> 6, dg |-> 6, sv |-> "wit", ins |-> << <<0, 5>> >>, wok |-> TRUE, sigs |-> <<Sg("K1", 6, "K1")>>],   \*  6 X : P2WPKH spend
  [tid |-> 7, dg |-> 7, sv |-> "wit", ins |-> << <<0, 6>> >>, wok |-> TRUE, sigs |-> <<Sg("K1", 7, "K1")>>],   \*  7 Y : P2WPKH spend
  [tid |-> 7, dg |-> 7, sv |-> "wit", ins |-> << <<0, 6>> >>, wok |-> TRUE, sigs |-> <<Sg("K1", 6, "K1")>>],   \*  8 Y': same txid as Y, carries X's signature (valid for another digest)
  [tid |-> 9, dg |-> 9, sv |-> "wit", ins |-> << <<0, 7>> >>, wok |-> TRUE, sigs |-> <<Sg("K2", 9, "K2"), Sg("K1", 9, "K1")>>],   \*  9 M : 2-of-2, signatures of K1 and K2
  [tid |-> 9, dg |-> 9, sv |-> "wit", ins |-> << <<0, 7>> >>, wok |-> TRUE, sigs |-> <<Sg("K1", 9, "K2"), Sg("K1", 9, "K1")>>],   \* 10 M': same txid, K1's signature twice
  Plain(11, <<0, 8>>),                                                                 \* 11 Z : always-failing script
  [tid |-> 12, dg |-> 12, sv |-> "base", ins |-> << <<0, 9>> >>, wok |-> TRUE, sigs |-> <<Sg("K1", 12, "K1")>>], \* 12 P : legacy P2PK spend
  Plain(13, <<1, 1>>),                                                                 \* 13 C : child of T
  Plain(14, <<0, 10>>),                                                                \* 14 V : violates CSV (valid before activation only)
  Plain(15, <<4, 1>>),                                                                 \* 15 CW: child of W / W'
  Wck(SgE("K1", 16, "K1", "c")),                                                       \* 16 EC : P2WSH CHECKSIG, compressed key (the honest, standard spend)
  Wck(SgE("K1", 16, "K1", "u")),                                                       \* 17 EU : same txid, uncompressed key (consensus valid, not standard in a witness)
  Wck(SgE("K1", 16, "K1", "ux")),                                                      \* 18 EUX: same txid, 04|X|Y' off the curve
  Wck(SgE("K1", 16, "K1", "hx")),                                                      \* 19 EHX: same txid, hybrid key with the wrong parity header
  Wck(SgE("K1", 16, "K1", "h")),                                                       \* 20 EH : same txid, hybrid key (consensus valid)
  Wck(SgHt("K1", 16, "K1", "none")),                                                   \* 21 EHT: same txid, same signature pushed with hash type NONE
  Wck(SgHi("K1", 16, "K1")),                                                           \* 22 ES : same txid, the signature with S negated (consensus valid, not standard)
  Sck(23, SgE("K1", 23, "K1", "u")),                                                   \* 23 SU : P2SH CHECKSIG, uncompressed key (honest, standard)
  Sck(24, SgE("K1", 23, "K1", "ux")),                                                  \* 24 SUX: same digest, other txid: 04|X|Y' off the curve (passes STRICTENC)
  Sck(25, SgE("K1", 23, "K1", "c")),                                                   \* 25 SC : same digest, compressed key (valid)
  Sck(26, SgE("K1", 23, "K1", "hx")),                                                  \* 26 SHX: same digest, hybrid with the wrong parity header
  [tid |-> 27, dg |-> 27, sv |-> "base", ins |-> << <<0, 14>> >>, wok |-> TRUE,
   sigs |-> <<SgE("K1", 27, "K1", "u"), SgE("K1", 27, "K1", "ux")>>]                   \* 27 BM : bare 2-of-2 over K1(u), K1(ux) with K1's signature twice
>>
AllTx == 1..27
AllActs == {"submit", "test", "mine", "testblock", "invalidate"}
NoTest == {"submit", "mine", "testblock", "invalidate"}
\* scenario families: the transactions submitted on their own, and the block contents
ActFlags == {2, 3}
ListsFlags == { <<>>, <<2>>, <<3>> }
ActFlags2 == {2, 14}
ListsFlags2 == { <<>>, <<2>>, <<14>>, <<2, 14>> }
ActWit == {4, 5, 15}
ListsWit == { <<>>, <<4>>, <<5>>, <<4, 15>>, <<15>> }
ActSig == {6, 8, 9, 10}
ListsSig == { <<6>>, <<8>>, <<9>>, <<10>> }
ActEncW == {16, 17, 18, 19}
ListsEncW == { <<16>>, <<17>>, <<18>>, <<19>> }
ActEncS == {23, 24, 25, 27}
ListsEncS == { <<23>>, <<24>>, <<25>>, <<27>> }
ActEncWT == {16, 18, 20, 21, 22}
ListsEncWT == { <<16>>, <<18>>, <<20>>, <<21>>, <<22>> }
ActEncST == {23, 24, 25, 26}
ListsEncST == { <<23>>, <<24>>, <<25>>, <<26>>, <<23, 24>> }
ActMix == {1, 6, 8, 13}
ListsMix == { <<>>, <<1>>, <<6>>, <<8>>, <<1, 13>>, <<13>>, <<6, 8>> }
\* simulation: everything
ListsAll == { <<>> } \cup { <<t>> : t \in {1, 2, 4, 5, 6, 8, 9, 10, 12, 14, 16, 18, 19, 22, 23, 24, 25, 27} } \cup { <<1, 13>>, <<4, 15>>, <<2, 14>>, <<6, 8>>, <<23, 25>>, <<16, 23>> }
FH1 == [CLTV |-> 106]
FH2 == [CLTV |-> 106, CSV |-> 107]
====
