---- MODULE MC_c13 ----
EXTENDS ValidationCache, Uni_c13
====
