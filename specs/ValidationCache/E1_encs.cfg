CONSTANTS
  TxU <- TxUDef
  Coins <- CoinsDef
  H0 = 104
  FlagHeights <- FH1
  Active <- ActEncS
  Lists <- ListsEncS
  Acts <- NoTest
  MaxSteps = 4
  KeyMode = "full"
INIT Init
NEXT Next
VIEW View0
INVARIANTS Agree NextLookupsAgree ExecCacheSound SigCacheSound ChainValid PoolValid
ACTION_CONSTRAINT Emit
CHECK_DEADLOCK FALSE
