CONSTANTS
  TxU <- TxUDef
  Coins <- CoinsDef
  H0 = 104
  FlagHeights <- FH1
  Active <- ActEncWT
  Lists <- ListsEncWT
  Acts <- AllActs
  MaxSteps = 3
  KeyMode = "full"
INIT Init
NEXT Next
VIEW View0
INVARIANTS Agree NextLookupsAgree ExecCacheSound SigCacheSound ChainValid PoolValid
ACTION_CONSTRAINT Emit
CHECK_DEADLOCK FALSE
