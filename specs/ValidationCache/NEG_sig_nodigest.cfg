CONSTANTS
  TxU <- TxUDef
  Coins <- CoinsDef
  H0 = 104
  FlagHeights <- FH1
  Active <- ActSig
  Lists <- ListsSig
  Acts <- AllActs
  MaxSteps = 3
  KeyMode = "sig_nodigest"
INIT Init
NEXT Next
VIEW View0
INVARIANTS Agree ChainValid PoolValid
CHECK_DEADLOCK FALSE
