CONSTANTS
  TxU <- TxUDef
  Coins <- CoinsDef
  H0 = 104
  FlagHeights <- FH1
  Active <- ActEncST
  Lists <- ListsEncST
  Acts <- NoTest
  MaxSteps = 4
  KeyMode = "full"
INIT Init
NEXT Next
VIEW View0
INVARIANTS Agree NextLookupsAgree ExecCacheSound SigCacheSound ChainValid PoolValid
ACTION_CONSTRAINT Emit
CHECK_DEADLOCK FALSE
