CONSTANTS
  TxU <- TxUDef
  Coins <- CoinsDef
  H0 = 104
  FlagHeights <- FH2
  Active <- AllTx
  Lists <- ListsAll
  Acts <- NoTest
  MaxSteps = 10
  KeyMode = "full"
INIT Init
NEXT Next
VIEW View0
INVARIANTS Agree NextLookupsAgree ExecCacheSound SigCacheSound ChainValid PoolValid
ACTION_CONSTRAINT Emit
CHECK_DEADLOCK FALSE
