CONSTANTS
  TxU <- TxUDef
  Coins <- CoinsDef
  H0 = 104
  FlagHeights <- FH1
  Active <- ActWit
  Lists <- ListsWit
  Acts <- AllActs
  MaxSteps = 3
  KeyMode = "txid"
INIT Init
NEXT Next
VIEW View0
INVARIANTS Agree ChainValid PoolValid
CHECK_DEADLOCK FALSE
