CONSTANTS
  TxU <- TxUDef
  Coins <- CoinsDef
  H0 = 104
  FlagHeights <- FH1
  Active <- ActEncS
  Lists <- ListsEncS
  Acts <- NoTest
  MaxSteps = 3
  KeyMode = "sig_noenc"
INIT Init
NEXT Next
VIEW View0
INVARIANTS Agree ChainValid PoolValid
CHECK_DEADLOCK FALSE
