CONSTANTS
  TxU <- TxUDef
  Coins <- CoinsDef
  H0 = 104
  FlagHeights <- FH2
  Active <- ActFlags2
  Lists <- ListsFlags2
  Acts <- NoTest
  MaxSteps = 6
  KeyMode = "full"
INIT Init
NEXT Next
VIEW View0
INVARIANTS Agree NextLookupsAgree ExecCacheSound SigCacheSound ChainValid PoolValid
ACTION_CONSTRAINT Emit
CHECK_DEADLOCK FALSE
