CONSTANTS
  TxU <- TxUDef
  Coins <- CoinsDef
  H0 = 104
  FlagHeights <- FH1
  Active <- ActFlags
  Lists <- ListsFlags
  Acts <- AllActs
  MaxSteps = 4
  KeyMode = "blockstd"
INIT Init
NEXT Next
VIEW View0
INVARIANTS Agree ChainValid PoolValid
CHECK_DEADLOCK FALSE
