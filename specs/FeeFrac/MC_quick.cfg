CONSTANTS
  Kinds = {"cmp", "eval", "div", "getfee", "chunks"}
  SF = 20
  SS = 12
  PF = 3
  PS = 2
  TF = 4
  TS = 3
  ChunkNeg = 1
  ChunkPos = 2
  ChunkSizes = {1, 2}
  MaxChunks = 2
  ChunkFees3 = {2}
  ChunkSizes3 = {1, 2}
INIT Init
NEXT Next
INVARIANTS CmpAntisymmetric CmpTotalStrict CmpEmptyLast CmpNative CmpTransitiveSmall CmpTransitiveWide EvalBrackets EvalNegation EvalNative EvalAlwaysFits DivBrackets GetFeeRoundsUp ChunksAntisymmetric ChunksEverySize EmitRow
CHECK_DEADLOCK FALSE
