CONSTANTS
  Kinds = {"cmp", "eval", "div", "getfee", "chunks"}
  SF = 20
  SS = 12
  PF = 20
  PS = 12
  TF = 8
  TS = 6
  ChunkNeg = 1
  ChunkPos = 3
  ChunkSizes = {1, 2, 3}
  MaxChunks = 2
  ChunkFees3 = {0, 1, 3}
  ChunkSizes3 = {1, 2}
INIT Init
NEXT Next
INVARIANTS CmpAntisymmetric CmpTotalStrict CmpEmptyLast CmpNative CmpTransitiveSmall CmpTransitiveWide EvalBrackets EvalNegation EvalNative EvalAlwaysFits DivBrackets GetFeeRoundsUp ChunksAntisymmetric ChunksEverySize EmitRow
CHECK_DEADLOCK FALSE
