---- MODULE FeeFrac ----
(***************************************************************************)
(* C30: feerate arithmetic is exact (src/util/feefrac.h, feefrac.cpp,      *)
(* src/policy/feerate.cpp).                                                *)
(*                                                                         *)
(* The specification is the mathematics the code promises, written over    *)
(* arbitrary-precision integers (sign + base-10^4 limbs, every limb        *)
(* product stays below 2^31, TLC's integer range):                         *)
(*   RatioCmp(a, b)  = sign(fee_a * size_b - fee_b * size_a)   (ByRatio,   *)
(*                     CFeeRate comparison)                                *)
(*   TotalCmp(a, b)  = RatioCmp, ties broken by the larger size first      *)
(*                     (ByRatioNegSize; the empty FeeFrac sorts last)      *)
(*   EvalDown/EvalUp = floor / ceil of fee * at_size / size                *)
(*   Mul / Div       = exact product, floor / ceil quotient (the native    *)
(*                     and the fallback versions must both equal it)       *)
(*   GetFee          = ceil(fee * vbytes / size) for non-negative rates    *)
(*   CompareChunks   = pointwise comparison of the two feerate diagrams    *)
(*                                                                         *)
(* Engine E4.  A seed state picks the first operand, one Next step picks   *)
(* the remaining operands and computes the predicted results (so that TLC  *)
(* workers share the table); every finished state is one row of the oracle *)
(* table replayed on the real operators.  The algebraic laws (antisymmetry,*)
(* transitivity, floor <= exact <= ceil, ...) are invariants; on the small *)
(* grid the limb arithmetic is additionally tied to TLC's own integers.    *)
(***************************************************************************)
EXTENDS Integers, Sequences, FiniteSets, TLC, VF
CONSTANTS Kinds,            \* subset of {"cmp", "eval", "div", "getfee", "chunks"}
          SF, SS,           \* small grid: fee in -SF..SF, size in 1..SS
          PF, PS,           \* partner grid of the comparison rows: every small operand is paired with fee in -PF..PF, size in 1..PS
          TF, TS,           \* transitivity is checked on all triples of the grid fee in -TF..TF, size in 1..TS
          ChunkNeg, ChunkPos, ChunkSizes, MaxChunks,   \* diagrams: up to MaxChunks chunks, fee in -ChunkNeg..ChunkPos, size in ChunkSizes
          ChunkFees3, ChunkSizes3                 \* a smaller alphabet for diagrams of up to 3 chunks

\* ------------------------------------------------------------------ natural numbers as little-endian base-10^4 limbs
\* (stripped: no leading zero limb; zero is <<>>).  One operand of every product and the divisor of every quotient in this
\* module is a size, i.e. a TLC integer n with 0 <= n < 2^31, so multiplication and division take a native second operand.
\* Operands below 10^8 short-cut through TLC's integers (the *Native invariants tie both paths together).
B == 10000
Dig(m, i) == IF i >= 1 /\ i <= Len(m) THEN m[i] ELSE 0
RECURSIVE Strip(_)
Strip(m) == IF m # <<>> /\ m[Len(m)] = 0 THEN Strip(SubSeq(m, 1, Len(m) - 1)) ELSE m
RECURSIVE MFromNat(_)
MFromNat(n) == IF n = 0 THEN <<>> ELSE <<n % B>> \o MFromNat(n \div B)
ToNat(m) == Dig(m, 1) + B * Dig(m, 2)                                   \* for Len(m) <= 2
RECURSIVE MAddR(_, _, _, _)
MAddR(a, b, i, c) == IF i > Len(a) /\ i > Len(b) THEN (IF c = 0 THEN <<>> ELSE <<c>>)
                     ELSE LET s == Dig(a, i) + Dig(b, i) + c IN <<s % B>> \o MAddR(a, b, i + 1, s \div B)
MAdd(a, b) == IF Len(a) <= 2 /\ Len(b) <= 2 THEN MFromNat(ToNat(a) + ToNat(b)) ELSE Strip(MAddR(a, b, 1, 0))
\* a - b for a >= b
RECURSIVE MSubR(_, _, _, _)
MSubR(a, b, i, br) == IF i > Len(a) THEN <<>>
                      ELSE LET s == a[i] - Dig(b, i) - br IN <<IF s < 0 THEN s + B ELSE s>> \o MSubR(a, b, i + 1, IF s < 0 THEN 1 ELSE 0)
MSub(a, b) == IF Len(a) <= 2 THEN MFromNat(ToNat(a) - ToNat(b)) ELSE Strip(MSubR(a, b, 1, 0))
\* comparison of stripped magnitudes: -1, 0, 1
RECURSIVE MCmpR(_, _, _)
MCmpR(a, b, i) == IF i = 0 THEN 0 ELSE IF a[i] # b[i] THEN (IF a[i] > b[i] THEN 1 ELSE -1) ELSE MCmpR(a, b, i - 1)
MCmp(a, b) == IF Len(a) # Len(b) THEN (IF Len(a) > Len(b) THEN 1 ELSE -1) ELSE MCmpR(a, b, Len(a))
\* carry propagation over raw limb sums c[1..n] (each below 2^31 - 10^6)
RECURSIVE CarryR(_, _, _)
CarryR(c, i, carry) == IF i > Len(c) THEN MFromNat(carry)
                       ELSE LET s == c[i] + carry IN <<s % B>> \o CarryR(c, i + 1, s \div B)
\* a * n for a native 0 <= n < 2^31 = n0 + n1*B + n2*B^2 (n2 <= 21): limb k of the product collects a[k]*n0 + a[k-1]*n1 + a[k-2]*n2
MMulNat(a, n) ==
  IF a = <<>> \/ n = 0 THEN <<>>
  ELSE IF Len(a) = 1 /\ n <= 214748 THEN MFromNat(a[1] * n)
  ELSE LET n0 == n % B  n1 == (n \div B) % B  n2 == n \div (B * B) IN
       Strip(CarryR([k \in 1..(Len(a) + 2) |-> Dig(a, k) * n0 + Dig(a, k - 1) * n1 + Dig(a, k - 2) * n2], 1, 0))
\* Division by a native 0 < d < 2^31.  A running value is kept as q*d + r with r < d; doubling it and adding some v < d
\* never leave the 32-bit range because the comparison is made against d - r instead of forming r + r.
Dbl(s, d) == IF s.r >= d - s.r THEN [q |-> 2 * s.q + 1, r |-> s.r - (d - s.r)] ELSE [q |-> 2 * s.q, r |-> s.r + s.r]
AddV(s, v, d) == IF s.r >= d - v THEN [q |-> s.q + 1, r |-> s.r - (d - v)] ELSE [q |-> s.q, r |-> s.r + v]
\* r0 * 10000 by binary Horner: 10000 = 2^4 * 625 and 625 = 1001110001 in binary (bits after the leading one below)
HornerB == <<0, 0, 1, 1, 1, 0, 0, 0, 1, 0, 0, 0, 0>>
RECURSIVE TimesB(_, _, _, _)
TimesB(s, r0, d, i) == IF i > Len(HornerB) THEN s
                       ELSE LET t == Dbl(s, d) IN TimesB(IF HornerB[i] = 1 THEN AddV(t, r0, d) ELSE t, r0, d, i + 1)
\* one long-division step: (r*B + x) = q*d + r' for r < d, x < B
DivStep(r, x, d) == IF d <= 214748 THEN [q |-> (r * B + x) \div d, r |-> (r * B + x) % d]
                    ELSE IF r = 0 THEN [q |-> x \div d, r |-> x % d]
                    ELSE LET s == TimesB([q |-> 0, r |-> r], r, d, 1) IN AddV([q |-> s.q + (x \div d), r |-> s.r], x % d, d)
RECURSIVE MDivR(_, _, _, _)
MDivR(n, d, i, r) == IF i = 0 THEN [q |-> <<>>, r |-> r]
                     ELSE LET s == DivStep(r, n[i], d)
                              rest == MDivR(n, d, i - 1, s.r)
                          IN [q |-> rest.q \o <<s.q>>, r |-> rest.r]
\* quotient (magnitude) and remainder (native) of n / d
MDivMod(n, d) == IF Len(n) <= 2 THEN [q |-> MFromNat(ToNat(n) \div d), r |-> ToNat(n) % d]
                 ELSE LET x == MDivR(n, d, Len(n), 0) IN [q |-> Strip(x.q), r |-> x.r]
RECURSIVE MPow2(_)
MPow2(k) == IF k <= 30 THEN MFromNat(2^k) ELSE MMulNat(MPow2(k - 30), 2^30)

\* ------------------------------------------------------------------ integers: sign and magnitude (zero is never negative)
BN(neg, m) == [neg |-> (neg /\ m # <<>>), m |-> m]
N(n) == IF n < 0 THEN BN(TRUE, MFromNat(-n)) ELSE BN(FALSE, MFromNat(n))          \* |n| < 2^31
BZero == BN(FALSE, <<>>)
BNeg(a) == BN(~a.neg, a.m)
BAdd(a, b) == IF a.neg = b.neg THEN BN(a.neg, MAdd(a.m, b.m))
              ELSE IF MCmp(a.m, b.m) >= 0 THEN BN(a.neg, MSub(a.m, b.m)) ELSE BN(b.neg, MSub(b.m, a.m))
BSub(a, b) == BAdd(a, BNeg(b))
BMul(a, n) == BN(a.neg, MMulNat(a.m, n))                                          \* n native, 0 <= n < 2^31
BSign(a) == IF a.m = <<>> THEN 0 ELSE IF a.neg THEN -1 ELSE 1
BCmp(a, b) == IF a.neg # b.neg THEN (IF a.neg THEN -1 ELSE 1) ELSE IF a.neg THEN MCmp(b.m, a.m) ELSE MCmp(a.m, b.m)
\* floor and ceiling of n / d for a native d > 0
BFloorDiv(n, d) == LET x == MDivMod(n.m, d) IN
                   IF ~n.neg THEN BN(FALSE, x.q) ELSE IF x.r = 0 THEN BN(TRUE, x.q) ELSE BN(TRUE, MAdd(x.q, <<1>>))
BCeilDiv(n, d) == LET x == MDivMod(n.m, d) IN
                  IF n.neg THEN BN(TRUE, x.q) ELSE IF x.r = 0 THEN BN(FALSE, x.q) ELSE BN(FALSE, MAdd(x.q, <<1>>))
BPow2(k) == BN(FALSE, MPow2(k))
BToInt(a) == (IF a.neg THEN -1 ELSE 1) * ToNat(a.m)                               \* |a| < 10^8
\* JSON form: a plain integer below 10^8, the limb record beyond
Out(a) == IF Len(a.m) <= 2 THEN BToInt(a) ELSE a
Sgn(i) == IF i < 0 THEN -1 ELSE IF i > 0 THEN 1 ELSE 0

I64Max == BSub(BPow2(63), N(1))
I64Min == BNeg(BPow2(63))
Fits64(x) == BCmp(x, I64Min) >= 0 /\ BCmp(x, I64Max) <= 0
I32Max == 2147483647
\* anchors for the limb arithmetic: known decimal expansions (checked once)
ASSUME I64Max = [neg |-> FALSE, m |-> <<5807, 5477, 368, 3372, 922>>]                                 \* 9223372036854775807
ASSUME BMul(I64Max, I32Max) = [neg |-> FALSE, m |-> <<8129, 8372, 3593, 2712, 1934, 406, 9807, 1>>]   \* (2^63-1)(2^31-1)
ASSUME BPow2(94) = [neg |-> FALSE, m |-> <<7584, 8598, 3983, 6084, 2856, 406, 9807, 1>>]
ASSUME MDivMod(BMul(I64Max, I32Max).m, I32Max - 1) = [q |-> <<3107, 4974, 411, 3372, 922>>, r |-> 7]
ASSUME MDivMod(BMul(I64Max, I32Max).m, I32Max) = [q |-> I64Max.m, r |-> 0]

\* ------------------------------------------------------------------ the domain
FF(fee, size) == [fee |-> fee, size |-> size]
Empty == FF(BZero, 0)
Grid(F, S) == {FF(N(f), s) : f \in (-F)..F, s \in 1..S}
\* fees whose products with a size exceed 64 bits ...
CmpWideFees == {N(1), N(-1), N(I32Max), N(-I32Max), BPow2(32), BNeg(BPow2(32)), I64Max, BNeg(I64Max)}
\* ... plus, for evaluation, the int64 minimum and the edge of EvaluateFee's 64-bit fast path (fee < 2^33)
WideFees == CmpWideFees \cup {I64Min, BSub(BPow2(33), N(1)), BPow2(33), BSub(BPow2(34), N(1))}
WideSizes == {1, 2, I32Max}
Small == Grid(SF, SS)
Sub == Grid(PF, PS)                                            \* partners of the comparison rows (all of Small in the thorough tier)
Tri == Grid(TF, TS)                                            \* the grid whose triples are checked for transitivity
CmpWide == {FF(f, s) : f \in CmpWideFees, s \in WideSizes}
Wide == {FF(f, s) : f \in WideFees, s \in WideSizes}
Mix == {FF(N(f), s) : f \in {-1, 0, 1}, s \in {1, 2}}          \* small values paired with the wide ones
TriWide == {FF(f, s) : f \in {N(-1), N(I32Max), BNeg(BPow2(32)), I64Max, BNeg(I64Max)}, s \in {1, I32Max}}   \* third operands of the wide triples
SmallE == Small \cup {Empty}
SubE == Sub \cup {Empty}
WideE == CmpWide \cup Mix \cup {Empty}
WideAts == {0, 1, 2, 1000, I32Max - 1, I32Max}
\* numerators for Div beyond products: around 2^32, 2^64 and up to 94 bits
DivNums == LET P == {BPow2(32), BPow2(64), BPow2(94), BMul(I64Max, I32Max)} IN
           UNION {{p, BNeg(p), BSub(p, N(1)), BNeg(BSub(p, N(1))), BAdd(p, N(1)), BNeg(BAdd(p, N(1)))} : p \in P}
             \cup {N(n) : n \in -7..7}
DivDens == {1, 2, 3, 7, 65536, I32Max - 1, I32Max}
KvbRates == {N(0), N(1), N(2), N(999), N(1000), N(1001), N(1999), N(I32Max), BPow2(32), BPow2(33), BPow2(40), I64Max}
FeeVBytes == {0, 1, 2, 999, 1000, 1001, I32Max}
\* diagrams
Chunks(F, S) == {FF(N(f), s) : f \in F, s \in S}
Lists(C, n) == UNION {[1..k -> C] : k \in 0..n}
WideChunk == LET W == BPow2(60) Z == 536870912 IN
             {FF(W, Z), FF(BNeg(W), Z), FF(BSub(W, N(1)), Z - 1), FF(BAdd(W, N(1)), Z)}
SmallLists == Lists(Chunks((-ChunkNeg)..ChunkPos, ChunkSizes), MaxChunks) \cup Lists(Chunks(ChunkFees3, ChunkSizes3), 3)
WideLists == Lists(WideChunk, 2)
\* Known finding (see known_findings.jsonl): every fee sum of either diagram is inside int64, as the header comment of
\* CompareChunks requires, but the difference between a point of one diagram and a point of the other is not.  The pairs
\* below are <<chunks0, chunks1>>; the last one (2^61) is the control whose differences still fit.
OvF == BAdd(BPow2(62), BPow2(61))
OvPair(f, s) == << <<FF(f, s), FF(N(1), s)>>, <<FF(BNeg(f), s), FF(N(-1), s)>> >>
Mirror(p) == <<p[2], p[1]>>
OverflowPairs == {OvPair(OvF, 1), Mirror(OvPair(OvF, 1)), OvPair(BSub(OvF, N(1)), 1), OvPair(OvF, 1000), OvPair(BPow2(61), 1)}

\* ------------------------------------------------------------------ the specification of the operations
Cross(a, b) == BMul(a.fee, b.size)                          \* fee_a * size_b, exact
RatioCmp(a, b) == BCmp(Cross(a, b), Cross(b, a))            \* the sign of fee_a*size_b - fee_b*size_a
TotalCmp(a, b) == LET r == RatioCmp(a, b) IN IF r # 0 THEN r ELSE Sgn(b.size - a.size)
EvalDown(f, at) == BFloorDiv(BMul(f.fee, at), f.size)
EvalUp(f, at) == BCeilDiv(BMul(f.fee, at), f.size)
\* CFeeRate::GetFee for a non-negative rate: round up; the empty rate charges nothing
GetFee(f, vbytes) == IF f.size = 0 THEN BZero ELSE EvalUp(f, vbytes)

\* feerate diagram of a chunk list: the points (0,0), then cumulative (size, fee); linear in between, flat after the end
RECURSIVE CumFee(_, _)
CumFee(ch, i) == IF i = 0 THEN BZero ELSE BAdd(CumFee(ch, i - 1), ch[i].fee)
RECURSIVE CumSize(_, _)
CumSize(ch, i) == IF i = 0 THEN 0 ELSE CumSize(ch, i - 1) + ch[i].size
\* the points of the diagram, indexed 0..Len(ch)
Points(ch) == [i \in 0..Len(ch) |-> [fee |-> CumFee(ch, i), size |-> CumSize(ch, i)]]
LastIx(pts) == Cardinality(DOMAIN pts) - 1
\* value at size x >= 0 of the diagram with points pts, as an exact fraction n/d with a native d > 0:
\* on the segment from A = pts[i] to the next point,  A.fee + dfee * (x - A.size) / dsize  =  (A.fee*dsize + dfee*(x - A.size)) / dsize
DiaAt(pts, x) ==
  LET last == LastIx(pts) IN
  IF x >= pts[last].size THEN [n |-> pts[last].fee, d |-> 1]
  ELSE LET i == CHOOSE i \in 0..(last - 1) : pts[i].size <= x /\ x < pts[i + 1].size
           dsize == pts[i + 1].size - pts[i].size
           dfee == BSub(pts[i + 1].fee, pts[i].fee)
       IN [n |-> BAdd(BMul(pts[i].fee, dsize), BMul(dfee, x - pts[i].size)), d |-> dsize]
FracCmp(p, q) == BCmp(BMul(p.n, q.d), BMul(q.n, p.d))
\* diagram 0 against diagram 1 on a set X of sizes: the set of signs of the difference
CompareOn(c0, c1, X) ==
  LET p0 == Points(c0) p1 == Points(c1)
      sg == {FracCmp(DiaAt(p0, x), DiaAt(p1, x)) : x \in X} IN
  IF sg \subseteq {0} THEN "equivalent" ELSE IF ~(-1 \in sg) THEN "greater" ELSE IF ~(1 \in sg) THEN "less" ELSE "unordered"
\* both diagrams are linear between consecutive breakpoints of either, so their difference is decided at the breakpoints
Breaks(c0, c1) == {CumSize(c0, i) : i \in 0..Len(c0)} \cup {CumSize(c1, i) : i \in 0..Len(c1)}
CompareChunks(c0, c1) == CompareOn(c0, c1, Breaks(c0, c1))
\* the definition taken literally, every integer size (breakpoints are integers; used on the small diagrams only)
TotalSize(ch) == CumSize(ch, Len(ch))
CompareEverySize(c0, c1) == CompareOn(c0, c1, 0..(IF TotalSize(c0) > TotalSize(c1) THEN TotalSize(c0) ELSE TotalSize(c1)))
Flip(o) == IF o = "less" THEN "greater" ELSE IF o = "greater" THEN "less" ELSE o

\* ------------------------------------------------------------------ table generation
VARIABLES kind, arg, res, done
vars == <<kind, arg, res, done>>
NoRes == [none |-> TRUE]

Seeds(k) ==
  CASE k = "cmp"    -> {[a |-> a] : a \in SmallE \cup WideE}
    [] k = "eval"   -> {[f |-> f] : f \in Small \cup Wide}
    [] k = "div"    -> {[n |-> n] : n \in DivNums}
    [] k = "getfee" -> {[ctor |-> "pair", f |-> f] : f \in {g \in Small \cup Wide : ~g.fee.neg}}
                         \cup {[ctor |-> "kvb", f |-> FF(r, 1000)] : r \in KvbRates}
    [] k = "chunks" -> {[c0 |-> c] : c \in SmallLists \cup WideLists \cup {p[1] : p \in OverflowPairs}}

Init == kind \in Kinds /\ arg \in Seeds(kind) /\ res = NoRes /\ done = FALSE

CmpRes(a, b) == LET ca == Cross(a, b) cb == Cross(b, a) r == BCmp(ca, cb) IN
                [ca |-> ca, cb |-> cb, ratio |-> r, total |-> (IF r # 0 THEN r ELSE Sgn(b.size - a.size)),
                 same |-> (a = b), nonempty |-> (a.size > 0 /\ b.size > 0)]
\* small-grid rows pair every operand with every operand of the partner grid, in both positions
Partners(a) == (IF a \in SubE THEN SmallE ELSE IF a \in SmallE THEN SubE ELSE {}) \cup (IF a \in WideE THEN WideE ELSE {})
CmpNext == /\ kind = "cmp"
           /\ \E b \in Partners(arg.a) :
                /\ arg' = [a |-> arg.a, b |-> b]
                /\ res' = CmpRes(arg.a, b)
EvalRes(f, at) == [prod |-> BMul(f.fee, at), down |-> EvalDown(f, at), up |-> EvalUp(f, at)]
EvalNext == /\ kind = "eval"
            /\ \E at \in (IF arg.f \in Small THEN 0..(SS + 2) ELSE WideAts) :
                 /\ arg' = [f |-> arg.f, at |-> at]
                 /\ res' = EvalRes(arg.f, at)
                 /\ Fits64(res'.down) /\ Fits64(res'.up)
DivNext == /\ kind = "div"
           /\ \E d \in DivDens :
                /\ arg' = [n |-> arg.n, d |-> d]
                /\ res' = [down |-> BFloorDiv(arg.n, d), up |-> BCeilDiv(arg.n, d)]
                /\ Fits64(res'.down) /\ Fits64(res'.up)
GetFeeNext == /\ kind = "getfee"
              /\ \E vb \in (IF arg.f \in Small THEN 0..(SS + 2) ELSE FeeVBytes) :
                   /\ arg' = [ctor |-> arg.ctor, f |-> arg.f, vbytes |-> vb]
                   /\ res' = [fee |-> GetFee(arg.f, vb)]
                   /\ Fits64(res'.fee)
ChunksNext == /\ kind = "chunks"
              /\ \E c1 \in (IF arg.c0 \in SmallLists THEN SmallLists ELSE IF arg.c0 \in WideLists THEN WideLists
                            ELSE {p[2] : p \in {q \in OverflowPairs : q[1] = arg.c0}}) :
                   /\ arg' = [c0 |-> arg.c0, c1 |-> c1]
                   /\ res' = [cmp |-> CompareChunks(arg.c0, c1)]
Next == ~done /\ done' = TRUE /\ kind' = kind /\ (CmpNext \/ EvalNext \/ DivNext \/ GetFeeNext \/ ChunksNext)

\* ------------------------------------------------------------------ the laws (decided by TLC on every row)
IsSmall(x) == x \in Small
\* comparison on TLC's own integers, valid on the small grid
NatRatio(fa, sa, fb, sb) == Sgn(fa * sb - fb * sa)
NatTotal(fa, sa, fb, sb) == IF NatRatio(fa, sa, fb, sb) # 0 THEN NatRatio(fa, sa, fb, sb) ELSE Sgn(sb - sa)

CmpRow == done /\ kind = "cmp"
\* sign(x - y) = -sign(y - x), also for the tie-break
CmpAntisymmetric == CmpRow => /\ BCmp(res.cb, res.ca) = -res.ratio
                              /\ BSign(BSub(res.ca, res.cb)) = res.ratio
                              /\ TotalCmp(arg.b, arg.a) = -res.total
\* the tie-broken order is a strict total order on distinct FeeFracs and refines the feerate order
CmpTotalStrict == CmpRow => /\ (res.total = 0 <=> arg.a = arg.b)
                            /\ (res.ratio # 0 => res.total = res.ratio)
                            /\ (res.ratio = 0 /\ arg.a # arg.b => res.total = Sgn(arg.b.size - arg.a.size))
\* the empty FeeFrac sorts last
CmpEmptyLast == CmpRow /\ arg.a = Empty /\ arg.b # Empty => res.total = 1
\* limbs agree with TLC's integers wherever those suffice
CmpNative == CmpRow /\ IsSmall(arg.a) /\ IsSmall(arg.b) =>
               LET fa == BToInt(arg.a.fee) fb == BToInt(arg.b.fee) IN
               /\ res.ratio = NatRatio(fa, arg.a.size, fb, arg.b.size)
               /\ res.total = NatTotal(fa, arg.a.size, fb, arg.b.size)
               /\ BToInt(res.ca) = fa * arg.b.size /\ BToInt(res.cb) = fb * arg.a.size
\* transitivity: a <= b /\ b <= c => a <= c for the feerate preorder (non-empty operands) and the total order, on all
\* triples of the Tri grid; equal feerates are an equivalence; a < b <= c => a < c
CmpTransitiveSmall ==
  CmpRow /\ arg.a \in Tri /\ arg.b \in Tri =>
    LET fa == BToInt(arg.a.fee) sa == arg.a.size fb == BToInt(arg.b.fee) sb == arg.b.size IN
    \A fc \in (-TF)..TF, sc \in 1..TS :
      LET bc == NatRatio(fb, sb, fc, sc) ac == NatRatio(fa, sa, fc, sc) IN
      /\ (res.ratio <= 0 /\ bc <= 0 => ac <= 0)
      /\ (res.ratio = 0 /\ bc = 0 => ac = 0)
      /\ (res.ratio < 0 /\ bc <= 0 => ac < 0)
      /\ (res.total <= 0 /\ NatTotal(fb, sb, fc, sc) <= 0 => NatTotal(fa, sa, fc, sc) <= 0)
CmpTransitiveWide ==
  CmpRow /\ arg.a \in WideE /\ arg.b \in WideE =>
    \A c \in TriWide :
      /\ (arg.a # Empty /\ arg.b # Empty /\ res.ratio <= 0 /\ RatioCmp(arg.b, c) <= 0 => RatioCmp(arg.a, c) <= 0)
      /\ (res.total <= 0 /\ TotalCmp(arg.b, c) <= 0 => TotalCmp(arg.a, c) <= 0)

\* floor <= exact <= ceil, each within one divisor of the numerator; ceil - floor in {0, 1}, 0 exactly when d divides n
Brackets(n, d, down, up) ==
  LET dn == BMul(down, d) un == BMul(up, d) diff == BSub(up, down) IN
  /\ BCmp(dn, n) <= 0 /\ BCmp(n, un) <= 0
  /\ BCmp(BSub(n, dn), N(d)) < 0 /\ BCmp(BSub(un, n), N(d)) < 0
  /\ (diff = N(0) \/ diff = N(1))
  /\ (diff = N(0) <=> dn = n)
EvalRow == done /\ kind = "eval"
EvalBrackets == EvalRow => Brackets(res.prod, arg.f.size, res.down, res.up)
\* rounding mirrors under negation: floor(-x) = -ceil(x)
EvalNegation == EvalRow => LET g == FF(BNeg(arg.f.fee), arg.f.size) IN
                           EvalDown(g, arg.at) = BNeg(res.up) /\ EvalUp(g, arg.at) = BNeg(res.down)
EvalNative == EvalRow /\ IsSmall(arg.f) =>
                LET p == BToInt(arg.f.fee) * arg.at IN
                /\ BToInt(res.prod) = p
                /\ BToInt(res.down) = p \div arg.f.size
                /\ BToInt(res.up) = -((-p) \div arg.f.size)
\* inside 0 <= at_size <= size the result is always representable (the documented guarantee)
EvalAlwaysFits == (kind = "eval" /\ ~done /\ ~IsSmall(arg.f)) =>
                    \A at \in {1, arg.f.size - 1, arg.f.size} : Fits64(EvalDown(arg.f, at)) /\ Fits64(EvalUp(arg.f, at))
DivRow == done /\ kind = "div"
DivBrackets == DivRow => Brackets(arg.n, arg.d, res.down, res.up)
GetFeeRow == done /\ kind = "getfee"
\* rounded up to the next satoshi: the least fee with fee * size >= rate_fee * vbytes; never negative
GetFeeRoundsUp == GetFeeRow =>
                    LET need == BMul(arg.f.fee, arg.vbytes) IN
                    /\ ~res.fee.neg
                    /\ BCmp(BMul(res.fee, arg.f.size), need) >= 0
                    /\ BCmp(BMul(BSub(res.fee, N(1)), arg.f.size), need) < 0
ChunksRow == done /\ kind = "chunks"
ChunksAntisymmetric == ChunksRow => /\ CompareChunks(arg.c1, arg.c0) = Flip(res.cmp)
                                    /\ (arg.c0 = arg.c1 => res.cmp = "equivalent")
ChunksEverySize == ChunksRow /\ arg.c0 \in SmallLists => res.cmp = CompareEverySize(arg.c0, arg.c1)

\* ------------------------------------------------------------------ emission
JF(f) == [fee |-> Out(f.fee), size |-> f.size]
JL(ch) == [i \in 1..Len(ch) |-> JF(ch[i])]
Row ==
  CASE kind = "cmp"    -> [kind |-> kind, a |-> JF(arg.a), b |-> JF(arg.b), ca |-> Out(res.ca), cb |-> Out(res.cb),
                           ratio |-> res.ratio, total |-> res.total, same |-> res.same, nonempty |-> res.nonempty]
    [] kind = "eval"   -> [kind |-> kind, f |-> JF(arg.f), at |-> arg.at, prod |-> Out(res.prod), down |-> Out(res.down), up |-> Out(res.up)]
    [] kind = "div"    -> [kind |-> kind, n |-> Out(arg.n), d |-> arg.d, down |-> Out(res.down), up |-> Out(res.up)]
    [] kind = "getfee" -> [kind |-> kind, ctor |-> arg.ctor, f |-> JF(arg.f), vbytes |-> arg.vbytes, fee |-> Out(res.fee)]
    [] kind = "chunks" -> [kind |-> kind, c0 |-> JL(arg.c0), c1 |-> JL(arg.c1), cmp |-> res.cmp,
                           family |-> (IF <<arg.c0, arg.c1>> \in OverflowPairs THEN "overflow" ELSE "grid")]
EmitRow == IF done THEN VFRow(Row) ELSE VFRow([kind |-> "seed"])
====
