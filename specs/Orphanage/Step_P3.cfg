CONSTANTS
  NPeers = 3
  TxSeq <- S_TxSeq
  TxAttr <- S_TxAttr
  OutSeq <- Outs3
  OutParent <- Par3
  ParentSeq <- ParAB
  MaxLatency = 3
  Reserved = 1200
  MaxStdWeight = 400000
INIT InitFrom
NEXT Stutter
INVARIANTS EmitVerdict
CHECK_DEADLOCK FALSE
