CONSTANTS
  NPeers = 3
  TxSeq <- L_TxSeq
  TxAttr <- L_TxAttr
  OutSeq <- Outs4
  OutParent <- Par4
  ParentSeq <- ParAB
  MaxLatency = 8
  Reserved = 2500
  MaxStdWeight = 400000
INIT Init
NEXT Next
VIEW View0
INVARIANTS TypeOK WithinLimits OrphanIffAnnounced
PROPERTIES ExplicitExact LimitJustified ResultsOK OrderKept
ACTION_CONSTRAINT Emit
CHECK_DEADLOCK FALSE
