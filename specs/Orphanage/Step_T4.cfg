CONSTANTS
  NPeers = 2
  TxSeq <- T_TxSeq
  TxAttr <- T_TxAttr
  OutSeq <- Outs3
  OutParent <- Par3
  ParentSeq <- ParAB
  MaxLatency = 4
  Reserved = 1300
  MaxStdWeight = 400000
INIT InitFrom
NEXT Stutter
INVARIANTS EmitVerdict
CHECK_DEADLOCK FALSE
