CONSTANTS
  NPeers = 2
  TxSeq <- T_TxSeq
  TxAttr <- T_TxAttr
  OutSeq <- Outs3
  OutParent <- Par3
  ParentSeq <- ParAB
  MaxLatency = 5
  Reserved = 1300
  MaxStdWeight = 400000
INIT Init
NEXT Next
VIEW View0
INVARIANTS TypeOK WithinLimits OrphanIffAnnounced
PROPERTIES ExplicitExact LimitJustified ResultsOK OrderKept
CHECK_DEADLOCK FALSE
