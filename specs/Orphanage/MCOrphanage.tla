---- MODULE MCOrphanage ----
(* Universes (orphan shapes, outpoints, limits) for the bounded models of Orphanage. Weights are real transaction      *)
(* weights: the harness builds transactions of exactly this weight with exactly `nin` inputs, `spends` among them.      *)
(* A transaction with k inputs weighs at least 4*(19+41k)+5, which is why 10-input orphans are the heavy ones.          *)
EXTENDS Orphanage
Tx(w, nin, spends, base) == [w |-> w, nin |-> nin, spends |-> spends, base |-> base]
Outs3 == <<"A0", "A1", "B0">>
Par3 == [o \in {"A0", "A1", "B0"} |-> IF o = "B0" THEN "B" ELSE "A"]
Outs4 == <<"A0", "A1", "B0", "B1">>
Par4 == [o \in {"A0", "A1", "B0", "B1"} |-> IF o \in {"B0", "B1"} THEN "B" ELSE "A"]
ParAB == <<"A", "B">>

\* S: 3 orphans; t3 has 10 inputs (latency score 2) and alone exceeds one peer's reserved usage
S_TxSeq == <<"t1", "t2", "t3">>
S_TxAttr == [t \in {"t1", "t2", "t3"} |->
  CASE t = "t1" -> Tx(400, 1, {"A0"}, "")
    [] t = "t2" -> Tx(800, 2, {"A1", "B0"}, "")
    [] t = "t3" -> Tx(2000, 10, {"A0", "B0"}, "")]

\* T: 4 orphans; t4 has the same txid as t1 (same inputs and outputs, different witness)
T_TxSeq == <<"t1", "t2", "t3", "t4">>
T_TxAttr == [t \in {"t1", "t2", "t3", "t4"} |->
  CASE t = "t1" -> Tx(400, 1, {"A0"}, "")
    [] t = "t2" -> Tx(800, 2, {"A1", "B0"}, "")
    [] t = "t3" -> Tx(2000, 10, {"A0", "B0"}, "")
    [] t = "t4" -> Tx(407, 1, {"A0"}, "t1")]

\* L: 6 orphans incl. a 20-input one (score 3), a same-txid pair and one above MAX_STANDARD_TX_WEIGHT that is never admitted
L_TxSeq == <<"t1", "t2", "t3", "t4", "t5", "t6">>
L_TxAttr == [t \in {"t1", "t2", "t3", "t4", "t5", "t6"} |->
  CASE t = "t1" -> Tx(400, 1, {"A0"}, "")
    [] t = "t2" -> Tx(801, 2, {"A1", "B0"}, "")
    [] t = "t3" -> Tx(2000, 10, {"A0", "B1"}, "")
    [] t = "t4" -> Tx(3602, 20, {"B0"}, "")
    [] t = "t5" -> Tx(411, 1, {"A0"}, "t1")
    [] t = "t6" -> Tx(400004, 1, {"B1"}, "")]
====
