CONSTANTS
  NPeers = 2
  TxSeq <- S_TxSeq
  TxAttr <- S_TxAttr
  OutSeq <- Outs3
  OutParent <- Par3
  ParentSeq <- ParAB
  MaxLatency = 4
  Reserved = 1200
  MaxStdWeight = 400000
INIT InitFrom
NEXT Stutter
INVARIANTS EmitVerdict
CHECK_DEADLOCK FALSE
