---- MODULE Orphanage ----
(***************************************************************************)
(* The orphan transaction pool (src/node/txorphanage.cpp, TxOrphanageImpl) *)
(* at the announcement level.  An announcement is (peer, orphan, entry     *)
(* sequence number, reconsider flag); `anns` is the list of announcements  *)
(* in increasing entry sequence (the position stands for m_entry_sequence, *)
(* only the relative order of which is ever used by the code).  `orphans`  *)
(* and `rset` are the code's incremental bookkeeping (m_unique_orphans /   *)
(* m_outpoint_to_orphan_wtxids and m_reconsiderable_wtxids), updated the   *)
(* way the code updates them.  Every action is one public call; each call  *)
(* that the code ends with LimitOrphans() ends with Limit here, which is   *)
(* the loop the code runs (heap of peers with DoS score > 1, worst first). *)
(*                                                                         *)
(* The clauses of property C35 are stated twice: as operators over plain   *)
(* sets of (peer, orphan) pairs (Explicit, Justified, SWithin, ResOK),     *)
(* independent of the algorithm, and checked on this model by TLC as       *)
(* invariants / action properties.  OrphanageStep evaluates the same       *)
(* operators on steps observed in the implementation.                      *)
(***************************************************************************)
EXTENDS Integers, Sequences, FiniteSets, TLC, VF
CONSTANTS NPeers,        \* peers are 1..NPeers (NodeId; a higher id is the more recent peer)
          TxSeq,         \* the orphan universe, a sequence of names
          TxAttr,        \* name -> [w: weight, nin: number of inputs, spends: modelled outpoints among the inputs, base: name or ""]
          OutSeq,        \* modelled outpoints (names), a sequence
          OutParent,     \* outpoint -> name of the parent transaction it belongs to
          ParentSeq,     \* parent transactions (names), a sequence
          MaxLatency,    \* max_global_latency_score
          Reserved,      \* reserved_peer_usage
          MaxStdWeight   \* MAX_STANDARD_TX_WEIGHT
Peers == 1..NPeers
Txs == {TxSeq[i] : i \in DOMAIN TxSeq}
Outs == {OutSeq[i] : i \in DOMAIN OutSeq}
Parents == {ParentSeq[i] : i \in DOMAIN ParentSeq}
ASSUME MaxLatency >= NPeers        \* otherwise MaxPeerLatencyScore() can be 0 and GetDosScore asserts
VARIABLES anns, orphans, rset, mid, lastAct, lastRes
vars == <<anns, orphans, rset, mid, lastAct, lastRes>>

WOf(t) == TxAttr[t].w
LatOf(t) == 1 + (TxAttr[t].nin \div 10)          \* Announcement::GetLatencyScore
Max2(a, b) == IF a > b THEN a ELSE b
RECURSIVE Sum(_, _)
Sum(f, S) == IF S = {} THEN 0 ELSE LET x == CHOOSE x \in S : TRUE IN f[x] + Sum(f, S \ {x})
Range(s) == {s[i] : i \in DOMAIN s}
B2S(b) == IF b THEN "true" ELSE "false"

(*************************** set level: the property ***************************)
\* S, M, P are sets of <<peer, orphan>> pairs
SPeers(S) == {x[1] : x \in S}
STxs(S) == {x[2] : x \in S}
SOf(S, p) == {x \in S : x[1] = p}
SUsage(S, p) == Sum([x \in SOf(S, p) |-> WOf(x[2])], SOf(S, p))
SLat(S, p) == Sum([x \in SOf(S, p) |-> LatOf(x[2])], SOf(S, p))
STotalLat(S) == Cardinality(S) + Sum([t \in STxs(S) |-> LatOf(t) - 1], STxs(S))
STotalUsage(S) == Sum([t \in STxs(S) |-> WOf(t)], STxs(S))
SMaxPeerLat(S) == MaxLatency \div Max2(Cardinality(SPeers(S)), 1)
SMaxUsage(S) == Reserved * Max2(Cardinality(SPeers(S)), 1)
SNeedsTrim(S) == STotalLat(S) > MaxLatency \/ STotalUsage(S) > SMaxUsage(S)
\* within the global announcement, latency and usage limits
SWithin(S) == /\ Cardinality(S) <= MaxLatency /\ STotalLat(S) <= MaxLatency /\ STotalUsage(S) <= SMaxUsage(S)
\* the peer uses more than its share (DoS score > 1), the per-peer latency share being ml
SAbove(S, p, ml) == SLat(S, p) > ml \/ SUsage(S, p) > Reserved

\* what a call does before limiting runs, act = <<name, args...>>
Explicit(S, act) ==
  CASE act[1] = "addtx" -> IF WOf(act[2]) > MaxStdWeight THEN S ELSE S \cup {<<act[3], act[2]>>}
    [] act[1] = "addannouncer" -> IF act[2] \in STxs(S) THEN S \cup {<<act[3], act[2]>>} ELSE S
    [] act[1] = "erasetx" -> {x \in S : x[2] # act[2]}
    [] act[1] = "eraseforpeer" -> {x \in S : x[1] # act[2]}
    [] act[1] = "eraseforblock" -> {x \in S : TxAttr[x[2]].spends \cap Range(act[2]) = {}}
    [] OTHER -> S
\* limiting M may leave P: nothing is invented, nothing is lost while within the limits, the pool is back within its limits, and a peer
\* loses announcements only while it is above its own share (shares as of the start of limiting)
Justified(M, P) ==
  /\ P \subseteq M
  /\ (~SNeedsTrim(M)) => P = M
  /\ SWithin(P)
  /\ LET ml == SMaxPeerLat(M) IN
     \A p \in SPeers(M) : LET L == SOf(M, p) \ P IN
        L # {} => /\ SAbove(M, p, ml)
                  /\ \E x \in L : SAbove(SOf(P, p) \cup {x}, p, ml)
\* what the call returns, a = announcement list before the call
ResOK(a, act, res) ==
  LET S == {<<a[i].p, a[i].t>> : i \in DOMAIN a} IN
  CASE act[1] = "addtx" -> res = B2S(WOf(act[2]) <= MaxStdWeight /\ act[2] \notin STxs(S))
    [] act[1] = "addannouncer" -> res = B2S(act[2] \in STxs(S) /\ <<act[3], act[2]>> \notin S)
    [] act[1] = "erasetx" -> res = B2S(act[2] \in STxs(S))
    [] act[1] = "gettx" -> LET W == {a[i].t : i \in {j \in DOMAIN a : a[j].p = act[2] /\ a[j].r}} IN
                             IF W = {} THEN res = "none" ELSE res \in W
    [] act[1] = "addchildren" ->
         LET C == {t \in STxs(S) : (\E o \in TxAttr[t].spends : OutParent[o] = act[2]) /\ ~\E i \in DOMAIN a : a[i].t = t /\ a[i].r} IN
         /\ {res[i].t : i \in DOMAIN res} = C /\ Len(res) = Cardinality(C)
         /\ \A i \in DOMAIN res : <<res[i].p, res[i].t>> \in S
    [] OTHER -> res = "none"

(*************************** the implementation's data and loop ***************************)
\* st = [a: announcement list, o: unique orphans, rs: reconsiderable orphans]
PairSet(a) == {<<a[i].p, a[i].t>> : i \in DOMAIN a}
PeersOf(a) == {a[i].p : i \in DOMAIN a}
TxsOf(a) == {a[i].t : i \in DOMAIN a}
IdxOf(a, p) == {i \in DOMAIN a : a[i].p = p}
PeerUsage(a, p) == Sum([i \in DOMAIN a |-> WOf(a[i].t)], IdxOf(a, p))       \* m_peer_orphanage_info[p].m_total_usage
PeerLat(a, p) == Sum([i \in DOMAIN a |-> LatOf(a[i].t)], IdxOf(a, p))       \* ... m_total_latency_score
TotalLat(st) == Len(st.a) + Sum([t \in st.o |-> LatOf(t) - 1], st.o)        \* m_orphans.size() + m_unique_rounded_input_scores
TotalUsage(st) == Sum([t \in st.o |-> WOf(t)], st.o)                        \* m_unique_orphan_usage
MaxPeerLat(a) == MaxLatency \div Max2(Cardinality(PeersOf(a)), 1)
MaxUsage(a) == Reserved * Max2(Cardinality(PeersOf(a)), 1)
NeedsTrim(st) == TotalLat(st) > MaxLatency \/ TotalUsage(st) > MaxUsage(st.a)

\* FeeFrac <<fee, size>> under ByRatioNegSize: by ratio, equal ratios by *larger* size first
FLess(x, y) == LET ca == x[1] * y[2]  cb == y[1] * x[2] IN ca < cb \/ (ca = cb /\ x[2] > y[2])
FLeq(x, y) == ~FLess(y, x)
FMax(x, y) == IF FLess(x, y) THEN y ELSE x                  \* std::max(x, y)
Above1(x) == x[1] > x[2]                                   \* ByRatio{x} > ByRatio{FeeFrac{1, 1}}
Score(a, p, ml, mm) == FMax(<<PeerLat(a, p), ml>>, <<PeerUsage(a, p), mm>>)   \* PeerDoSInfo::GetDosScore
\* compare_score: the heap's order; equal scores: the higher NodeId is worse
HLess(a, p, q, ml, mm) == LET sp == Score(a, p, ml, mm)  sq == Score(a, q, ml, mm) IN
                          IF sp # sq THEN FLess(sp, sq) ELSE p < q
Worst(a, H, ml, mm) == CHOOSE p \in H : \A q \in H \ {p} : HLess(a, q, p, ml, mm)

RemoveAt(s, i) == SubSeq(s, 1, i - 1) \o SubSeq(s, i + 1, Len(s))
\* TxOrphanageImpl::Erase(it)
Erase1(st, i) == LET x == st.a[i]
                     rest == RemoveAt(st.a, i)
                     uniq == ~\E j \in DOMAIN rest : rest[j].t = x.t      \* IsUnique(it)
                 IN [a |-> rest, o |-> IF uniq THEN st.o \ {x.t} ELSE st.o, rs |-> IF x.r THEN st.rs \ {x.t} ELSE st.rs]
RECURSIVE EraseIdx(_, _)
EraseIdx(st, K) ==    \* erase the announcements whose (peer, orphan) is in K, one Erase at a time
  LET I == {i \in DOMAIN st.a : <<st.a[i].p, st.a[i].t>> \in K} IN
  IF I = {} THEN st ELSE EraseIdx(Erase1(st, CHOOSE i \in I : \A j \in I : i <= j), K)
\* first announcement of p in the ByPeer index: (peer, reconsider, sequence) ascending
FirstOf(a, p) == LET N == {i \in IdxOf(a, p) : ~a[i].r} IN
                 IF N # {} THEN CHOOSE i \in N : \A j \in N : i <= j
                 ELSE CHOOSE i \in IdxOf(a, p) : \A j \in IdxOf(a, p) : i <= j
\* inner loop of LimitOrphans: trim w until it is no longer the worst (<= thr), it is gone, or nothing needs trimming
RECURSIVE Inner(_, _, _, _, _)
Inner(st, w, thr, ml, mm) ==
  IF ~NeedsTrim(st) THEN st
  ELSE LET st1 == Erase1(st, FirstOf(st.a, w)) IN
       IF w \notin PeersOf(st1.a) \/ FLeq(Score(st1.a, w, ml, mm), thr) THEN st1 ELSE Inner(st1, w, thr, ml, mm)
\* outer loop: H = the peers in the heap (their stored scores are current: only the popped peer changes)
RECURSIVE Outer(_, _, _, _)
Outer(st, H, ml, mm) ==
  IF H = {} THEN st          \* cannot happen (Assume(!heap_peer_dos.empty())); WithinLimits would fail
  ELSE LET w == Worst(st.a, H, ml, mm)
           H1 == H \ {w}
           thr == IF H1 = {} THEN <<1, 1>> ELSE Score(st.a, Worst(st.a, H1, ml, mm), ml, mm)
           st1 == Inner(st, w, thr, ml, mm)
       IN IF ~NeedsTrim(st1) THEN st1
          ELSE Outer(st1, IF w \in PeersOf(st1.a) THEN H1 \cup {w} ELSE H1, ml, mm)
Limit(st) ==
  IF ~NeedsTrim(st) THEN st
  ELSE LET ml == MaxPeerLat(st.a)   mm == Reserved IN      \* fixed for the whole call
       Outer(st, {p \in PeersOf(st.a) : Above1(Score(st.a, p, ml, mm))}, ml, mm)

Cur == [a |-> anns, o |-> orphans, rs |-> rset]
Commit(st1, limit, act, res) ==
  LET st2 == IF limit THEN Limit(st1) ELSE st1 IN
  /\ anns' = st2.a /\ orphans' = st2.o /\ rset' = st2.rs
  /\ mid' = st1.a /\ lastAct' = act
  /\ lastRes' = [res |-> res, ev |-> Len(st1.a) - Len(st2.a)]

Init == /\ anns = <<>> /\ orphans = {} /\ rset = {} /\ mid = <<>>
        /\ lastAct = <<"init">> /\ lastRes = [res |-> "none", ev |-> 0]

AddTx(t, p) ==
  LET act == <<"addtx", t, p>> IN
  IF WOf(t) > MaxStdWeight \/ <<p, t>> \in PairSet(anns) THEN Commit(Cur, FALSE, act, "false")
  ELSE LET new == t \notin TxsOf(anns) IN          \* brand_new = !HaveTx(wtxid)
       Commit([a |-> Append(anns, [p |-> p, t |-> t, r |-> FALSE]), o |-> IF new THEN orphans \cup {t} ELSE orphans, rs |-> rset],
              TRUE, act, B2S(new))
AddAnnouncer(t, p) ==
  LET act == <<"addannouncer", t, p>> IN
  IF t \notin TxsOf(anns) \/ <<p, t>> \in PairSet(anns) THEN Commit(Cur, FALSE, act, "false")
  ELSE Commit([a |-> Append(anns, [p |-> p, t |-> t, r |-> FALSE]), o |-> orphans, rs |-> rset], TRUE, act, "true")
EraseTx(t) ==
  Commit(EraseIdx(Cur, {<<p, t>> : p \in Peers}), TRUE, <<"erasetx", t>>, B2S(t \in TxsOf(anns)))
EraseForPeer(p) ==
  IF p \notin PeersOf(anns) THEN Commit(Cur, FALSE, <<"eraseforpeer", p>>, "none")
  ELSE Commit(EraseIdx(Cur, {<<p, t>> : t \in Txs}), TRUE, <<"eraseforpeer", p>>, "none")
\* the block's transactions spend the outpoints S; victims come from the outpoint index, which holds the unique orphans
EraseForBlock(S) ==
  LET act == <<"eraseforblock", SelectSeq(OutSeq, LAMBDA o : o \in S)>> IN
  IF anns = <<>> THEN Commit(Cur, FALSE, act, "none")
  ELSE LET V == {t \in orphans : TxAttr[t].spends \cap S # {}} IN
       Commit(EraseIdx(Cur, {<<p, t>> : p \in Peers, t \in V}), TRUE, act, "none")
\* children of parent P that are not yet reconsiderable get one announcement marked, of an announcer chosen at random
AddChildren(P) ==
  LET C == {t \in orphans : \E o \in TxAttr[t].spends : OutParent[o] = P} \ rset
      CS == SelectSeq(TxSeq, LAMBDA t : t \in C) IN
  \E pick \in [C -> Peers] :
    /\ \A t \in C : <<pick[t], t>> \in PairSet(anns)
    /\ LET ps == [i \in 1..Len(CS) |-> [t |-> CS[i], p |-> pick[CS[i]]]] IN
       Commit([a |-> [i \in DOMAIN anns |-> IF anns[i].t \in C /\ pick[anns[i].t] = anns[i].p THEN [anns[i] EXCEPT !.r = TRUE] ELSE anns[i]],
               o |-> orphans, rs |-> rset \cup C], FALSE, <<"addchildren", P, ps>>, ps)
\* first reconsiderable announcement of the peer (lowest sequence) is handed out and flipped back
GetTxToReconsider(p) ==
  LET W == {i \in IdxOf(anns, p) : anns[i].r} IN
  IF W = {} THEN Commit(Cur, FALSE, <<"gettx", p>>, "none")
  ELSE LET i == CHOOSE i \in W : \A j \in W : i <= j IN
       Commit([a |-> [anns EXCEPT ![i].r = FALSE], o |-> orphans, rs |-> rset \ {anns[i].t}], FALSE, <<"gettx", p>>, anns[i].t)

Next == \/ \E t \in Txs, p \in Peers : AddTx(t, p) \/ AddAnnouncer(t, p)
        \/ \E t \in Txs : EraseTx(t)
        \/ \E p \in Peers : EraseForPeer(p) \/ GetTxToReconsider(p)
        \/ \E S \in (SUBSET Outs) \ {{}} : EraseForBlock(S)
        \/ \E P \in Parents : AddChildren(P)
Spec == Init /\ [][Next]_vars

(*************************** C35 on the model ***************************)
TypeOK == /\ \A i \in DOMAIN anns : anns[i].p \in Peers /\ anns[i].t \in Txs /\ anns[i].r \in BOOLEAN
          /\ \A i, j \in DOMAIN anns : i # j => <<anns[i].p, anns[i].t>> # <<anns[j].p, anns[j].t>>
\* after each call (each ends with its limiting step) the pool is within the global announcement, latency and usage limits
WithinLimits == SWithin(PairSet(anns)) /\ ~NeedsTrim(Cur)
\* an orphan is present iff it has at least one announcement (and the work-set bookkeeping agrees with the flags)
OrphanIffAnnounced == /\ orphans = TxsOf(anns)
                      /\ rset = {anns[i].t : i \in {j \in DOMAIN anns : anns[j].r}}
                      /\ \A i, j \in DOMAIN anns : (anns[i].r /\ anns[j].r /\ anns[i].t = anns[j].t) => i = j
\* a call removes/adds exactly the affected announcements before limiting (EraseForPeer, EraseForBlock, EraseTx, AddTx, AddAnnouncer) ...
ExplicitExact == [][PairSet(mid') = Explicit(PairSet(anns), lastAct')]_vars
\* ... and limiting only takes announcements of peers above their share, only while they are above it, and only when a global limit is exceeded
LimitJustified == [][Justified(PairSet(mid'), PairSet(anns'))]_vars
ResultsOK == [][ResOK(anns, lastAct', lastRes'.res)]_vars
\* surviving announcements keep their relative entry order
Pos(a, x) == LET I == {i \in DOMAIN a : a[i].p = x.p /\ a[i].t = x.t} IN IF I = {} THEN 0 ELSE CHOOSE i \in I : TRUE
OrderKept == [][\A i, j \in DOMAIN anns : (i < j /\ Pos(anns', anns[i]) # 0 /\ Pos(anns', anns[j]) # 0) => Pos(anns', anns[i]) < Pos(anns', anns[j])]_vars

(*************************** projection ***************************)
PeerSeq == [i \in 1..NPeers |-> i]
Proj == [hidden |-> anns,
         ann |-> [t \in Txs |-> SelectSeq(PeerSeq, LAMBDA p : <<p, t>> \in PairSet(anns))],
         peer |-> [p \in Peers |-> [n |-> Cardinality(IdxOf(anns, p)), usage |-> PeerUsage(anns, p), lat |-> PeerLat(anns, p),
                                    work |-> \E i \in IdxOf(anns, p) : anns[i].r]],
         g |-> [nann |-> Len(anns), nuniq |-> Cardinality(orphans), lat |-> TotalLat(Cur), usage |-> TotalUsage(Cur),
                maxusage |-> MaxUsage(anns), maxpeerlat |-> MaxPeerLat(anns)]]
View0 == <<anns, orphans, rset>>
\* Proj is the complete state (OrphanIffAnnounced makes orphans and rset functions of `hidden`), so the graph can be keyed by it
Emit == VFEdge(Proj, lastAct', lastRes', Proj')
Universe == [kind |-> "universe", npeers |-> NPeers, maxlatency |-> MaxLatency, reserved |-> Reserved, maxstdweight |-> MaxStdWeight,
             txs |-> [i \in DOMAIN TxSeq |-> [name |-> TxSeq[i], w |-> TxAttr[TxSeq[i]].w, nin |-> TxAttr[TxSeq[i]].nin,
                                             spends |-> SelectSeq(OutSeq, LAMBDA o : o \in TxAttr[TxSeq[i]].spends), base |-> TxAttr[TxSeq[i]].base]],
             outs |-> [i \in DOMAIN OutSeq |-> [name |-> OutSeq[i], parent |-> OutParent[OutSeq[i]]]],
             parents |-> ParentSeq]
ASSUME VFRow(Universe)
====
