---- MODULE OrphanageStep ----
(* Judges steps observed in the *implementation* against the clauses of C35 (deviation handling, DESIGN section 8:      *)
(* C35 is an invariant/relation property, so a call whose outcome differs from the deterministic model is a violation   *)
(* only if one of the property's clauses fails on what the implementation did).  Each line of the file named by env     *)
(* STEPS is [pre, act, res, post]: `pre` the announcement list before the call (the model's, on which implementation     *)
(* and model agreed so far), `act` the call, `res` what the implementation returned and `post` what its query interface *)
(* reported afterwards (ann: orphan -> announcers, peer: per-peer counters, g: global counters).  One verdict row is     *)
(* printed per step; the clause operators are those of Orphanage.                                                        *)
EXTENDS MCOrphanage, Json, IOUtils
Steps == ndJsonDeserialize(IOEnv.STEPS)
PostSet(s) == {x \in Peers \X Txs : \E i \in DOMAIN s.post.ann[x[2]] : s.post.ann[x[2]][i] = x[1]}
\* every counter the interface reports is the one recomputed from the reported announcements
CountersOK(s) ==
  LET P == PostSet(s)  g == s.post.g IN
  /\ g.nann = Cardinality(P) /\ g.nuniq = Cardinality(STxs(P))
  /\ g.lat = STotalLat(P) /\ g.usage = STotalUsage(P)
  /\ g.maxusage = SMaxUsage(P) /\ g.maxpeerlat = SMaxPeerLat(P)
  /\ \A p \in Peers : /\ s.post.peer[p].n = Cardinality(SOf(P, p))
                      /\ s.post.peer[p].usage = SUsage(P, p)
                      /\ s.post.peer[p].lat = SLat(P, p)
Verdict(s) ==
  LET P == PostSet(s)  M == Explicit(PairSet(s.pre), s.act) IN
  IF ~CountersOK(s) THEN "counters"
  ELSE IF ~SWithin(P) THEN "limits"
  ELSE IF ~(P \subseteq M) THEN "explicit"      \* holds an announcement the call should have removed / never added
  ELSE IF ~Justified(M, P) THEN "eviction"
  ELSE IF ~ResOK(s.pre, s.act, s.res) THEN "result"
  ELSE "ok"
InitFrom == \E i \in 1..Len(Steps) :
              /\ anns = Steps[i].pre /\ orphans = {} /\ rset = {} /\ mid = <<>>
              /\ lastAct = <<"observed", i>> /\ lastRes = [res |-> "none", ev |-> 0]
Stutter == UNCHANGED vars
EmitVerdict == VFRow([kind |-> "verdict", i |-> lastAct[2], verdict |-> Verdict(Steps[lastAct[2]])])
====
