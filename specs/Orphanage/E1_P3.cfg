CONSTANTS
  NPeers = 3
  TxSeq <- S_TxSeq
  TxAttr <- S_TxAttr
  OutSeq <- Outs3
  OutParent <- Par3
  ParentSeq <- ParAB
  MaxLatency = 3
  Reserved = 1200
  MaxStdWeight = 400000
INIT Init
NEXT Next
VIEW View0
INVARIANTS TypeOK WithinLimits OrphanIffAnnounced
PROPERTIES ExplicitExact LimitJustified ResultsOK OrderKept
ACTION_CONSTRAINT Emit
CHECK_DEADLOCK FALSE
