CONSTANTS
  NPeers = 3
  TxSeq <- L_TxSeq
  TxAttr <- L_TxAttr
  OutSeq <- Outs4
  OutParent <- Par4
  ParentSeq <- ParAB
  MaxLatency = 8
  Reserved = 2500
  MaxStdWeight = 400000
INIT InitFrom
NEXT Stutter
INVARIANTS EmitVerdict
CHECK_DEADLOCK FALSE
