---- MODULE HeadersSync ----
(***************************************************************************)
(* Low-work headers synchronisation with one peer (src/headerssync.cpp,    *)
(* class HeadersSyncState) as it is coded: one action = one call of        *)
(* ProcessNextHeaders(batch, full_headers_message).                        *)
(*                                                                         *)
(* A session is described by a world record w (constant during a session): *)
(*   P, B        commitment_period, redownload_buffer_size                 *)
(*   off         the secret commitment offset (heights n with n % P = off) *)
(*   minWork     minimum_required_work; startWork = work of chain_start    *)
(*   maxC        m_max_commitments (6 blocks/s since the start's MTP)      *)
(*   L, K, pa, pb  what the peer owns: chain A = A_1..A_L on top of the    *)
(*               start and a fork B_(K+1)..B_L that branches off after A_K *)
(*   RI          difficulty adjustment interval; pa/pb give the difficulty *)
(*               level (0 = easiest) of each chain per epoch of RI heights *)
(* A header is [c, h, b]: chain, height and b = its salted 1-bit hash.     *)
(* The bit is uninterpreted: the same header always matches its own        *)
(* commitment, a different header matches iff the bits happen to agree.    *)
(* PermittedDifficultyTransition is modelled on levels: at a retarget      *)
(* height the level may move by at most one (a factor 4), elsewhere it     *)
(* must not change.  The work of a header of level v is LW(v).             *)
(*                                                                         *)
(* Ghost variables (not state of the object): pre = chain accepted in the  *)
(* first pass, released = everything handed out for storage so far,        *)
(* nlucky = number of commitments matched by a *different* header.         *)
(***************************************************************************)
EXTENDS Integers, Sequences, FiniteSets, TLC, VF

CONSTANTS Worlds,      \* the sessions the model checker explores (set of world records)
          MaxBatch     \* longest headers message of the model peer

VARIABLES w, st, last, h, work, commits, buf, rlast, rh, rwork, procAll,
          pre, released, nlucky, lastAct, lastRes
core  == <<w, st, last, h, work, commits, buf, rlast, rh, rwork, procAll, pre, released, nlucky>>
vars  == <<w, st, last, h, work, commits, buf, rlast, rh, rwork, procAll, pre, released, nlucky, lastAct, lastRes>>

Id(c, n)   == [c |-> c, h |-> n]
Strip(x)   == Id(x.c, x.h)
StartId    == Id("A", 0)
SameId(x, y) == x.c = y.c /\ x.h = y.h
\* GetBlockProof of the target the harness uses for level v (target 2^(248-2v)): 255, 1023, 4095, ...
LW(v) == 4^(v + 4) - 1

LvlIn(wd, x)  == IF x.c = "A" THEN wd.pa[(x.h \div wd.RI) + 1] ELSE wd.pb[(x.h \div wd.RI) + 1]
LvlOf(x)      == LvlIn(w, x)
ParentOf(x)   == IF x.c = "B" /\ x.h = w.K + 1 THEN Id("A", w.K) ELSE Id(x.c, x.h - 1)
IsHeader(x)   == x.h >= 1 /\ x.h <= w.L /\ (x.c = "B" => x.h > w.K)
\* src/pow.cpp PermittedDifficultyTransition(params, height, old_nbits, new_nbits)
PermittedAt(n, old, new) == IF n % w.RI = 0 THEN (new - old) \in {-1, 0, 1} ELSE new = old
\* commitment c (taken from header c in the first pass) against the redownloaded header x
Matches(c, x) == SameId(c, x) \/ c.b = x.b

Cur == [st |-> st, last |-> last, h |-> h, work |-> work, commits |-> commits, buf |-> buf, rlast |-> rlast,
        rh |-> rh, rwork |-> rwork, procAll |-> procAll, pre |-> pre, released |-> released, nlucky |-> nlucky,
        ok |-> TRUE, why |-> "ok"]

Fresh(wd) == [st |-> "PRESYNC", last |-> StartId, h |-> 0, work |-> wd.startWork, commits |-> <<>>, buf |-> <<>>,
              rlast |-> StartId, rh |-> 0, rwork |-> 0, procAll |-> FALSE, pre |-> <<>>, released |-> <<>>,
              nlucky |-> 0, ok |-> TRUE, why |-> "ok"]

\* HeadersSyncState::Finalize(): frees the commitments and the buffer. (The presync work, the redownload height and
\* work are not reset by the code; nothing reads them afterwards and the model zeroes work to keep FINAL states few.)
Finalize(s) == [s EXCEPT !.st = "FINAL", !.commits = <<>>, !.buf = <<>>, !.last = StartId, !.rlast = StartId,
                         !.h = 0, !.work = 0, !.procAll = FALSE]

Bad(s, why) == [s EXCEPT !.ok = FALSE, !.why = why]

\* ---- first pass: ValidateAndProcessSingleHeader for each header of the message
RECURSIVE PreFold(_, _)
PreFold(ids, s) ==
  IF ids = <<>> \/ ~s.ok THEN s
  ELSE LET x  == Head(ids)
           nh == s.h + 1
       IN IF ~PermittedAt(nh, LvlOf(s.last), LvlOf(x)) THEN Bad(s, "presync-difficulty")
          ELSE LET cm == IF nh % w.P = w.off THEN Append(s.commits, x) ELSE s.commits
               IN IF Len(cm) > w.maxC THEN Bad(s, "presync-too-many-commitments")
                  ELSE PreFold(Tail(ids), TLCEval([s EXCEPT !.h = nh, !.work = s.work + LW(LvlOf(x)), !.commits = cm,
                                                            !.last = Strip(x), !.pre = Append(s.pre, Strip(x))]))

\* ---- second pass: ValidateAndStoreRedownloadedHeader for each header of the message
RECURSIVE RedFold(_, _)
RedFold(ids, s) ==
  IF ids = <<>> \/ ~s.ok THEN s
  ELSE LET x  == Head(ids)
           nh == s.rh + 1
           \* as coded: the nBits of the newest buffered header, or of chain_start when the buffer is empty
           prevLvl == IF s.buf = <<>> THEN LvlOf(StartId) ELSE LvlOf(s.buf[Len(s.buf)])
       IN IF ParentOf(x) # s.rlast THEN Bad(s, "redownload-nonconnecting")
          ELSE IF ~PermittedAt(nh, prevLvl, LvlOf(x)) THEN Bad(s, "redownload-difficulty")
          ELSE LET rw  == s.rwork + LW(LvlOf(x))
                   pa  == s.procAll \/ rw >= w.minWork
                   chk == ~pa /\ nh % w.P = w.off
               IN IF chk /\ s.commits = <<>> THEN Bad(s, "redownload-commitment-overrun")
                  ELSE IF chk /\ ~Matches(Head(s.commits), x) THEN Bad(s, "redownload-commitment-mismatch")
                  ELSE RedFold(Tail(ids),
                         TLCEval([s EXCEPT !.rwork = rw, !.procAll = pa,
                                   !.commits = IF chk THEN Tail(s.commits) ELSE s.commits,
                                   !.nlucky = IF chk /\ ~SameId(Head(s.commits), x) THEN s.nlucky + 1 ELSE s.nlucky,
                                   !.buf = Append(s.buf, Strip(x)), !.rh = nh, !.rlast = Strip(x)]))

\* ---- PopHeadersReadyForAcceptance: the loop of the code
RECURSIVE PopLoop(_)
PopLoop(s) == IF Len(s.buf) > w.B \/ (Len(s.buf) > 0 /\ s.procAll)
              THEN PopLoop(TLCEval([s EXCEPT !.released = Append(s.released, Head(s.buf)), !.buf = Tail(s.buf)]))
              ELSE s

Result(succ, more, rel, s) == [succ |-> succ, more |-> more, rel |-> rel, pa |-> s.procAll, rh |-> s.rh, why |-> s.why]

\* ---- ProcessNextHeaders(batch, full): new state and returned ProcessingResult
Outcome(batch, full) ==
  IF st = "PRESYNC"
  THEN IF ParentOf(batch[1]) # last
       THEN LET s == Bad(Cur, "presync-nonconnecting") IN [s |-> Finalize(s), r |-> Result(FALSE, FALSE, <<>>, s)]
       ELSE LET s == TLCEval(PreFold(batch, TLCEval(Cur))) IN
            IF ~s.ok THEN [s |-> Finalize([s EXCEPT !.pre = pre]), r |-> Result(FALSE, FALSE, <<>>, s)]
            ELSE LET toRed == s.work >= w.minWork
                     s2 == IF toRed THEN [s EXCEPT !.st = "REDOWNLOAD", !.buf = <<>>, !.rh = 0, !.rlast = StartId,
                                                   !.rwork = w.startWork]
                           ELSE s
                     more == full \/ toRed
                 IN [s |-> IF more THEN s2 ELSE Finalize(s2), r |-> Result(TRUE, more, <<>>, s2)]
  ELSE LET s == TLCEval(RedFold(batch, TLCEval(Cur))) IN
       IF ~s.ok THEN [s |-> Finalize([Cur EXCEPT !.ok = FALSE, !.why = s.why]), r |-> Result(FALSE, FALSE, <<>>, s)]
       ELSE LET s2   == TLCEval(PopLoop(s))
                rel  == SubSeq(s2.released, Len(released) + 1, Len(s2.released))
                done == s2.buf = <<>> /\ s2.procAll
                more == ~done /\ full
            IN [s |-> IF more THEN s2 ELSE Finalize(s2), r |-> Result(TRUE, more, rel, s2)]

Install(s) ==
  /\ st' = s.st /\ last' = s.last /\ h' = s.h /\ work' = s.work /\ commits' = s.commits /\ buf' = s.buf
  /\ rlast' = s.rlast /\ rh' = s.rh /\ rwork' = s.rwork /\ procAll' = s.procAll
  /\ pre' = s.pre /\ released' = s.released /\ nlucky' = s.nlucky

Process(batch, full) ==
  /\ st \in {"PRESYNC", "REDOWNLOAD"}
  /\ batch # <<>>
  /\ LET o == TLCEval(Outcome(batch, full)) IN
     /\ Install(o.s)
     /\ lastAct' = <<"proc", batch, full>>
     /\ lastRes' = o.r
  /\ w' = w

\* The sync object gives up without handing anything out (SAFE mode: the implementation may be more conservative).
GiveUp(batch, full) ==
  /\ st \in {"PRESYNC", "REDOWNLOAD"}
  /\ Install(Finalize(Cur))
  /\ lastAct' = <<"proc", batch, full>>
  /\ lastRes' = Result(FALSE, FALSE, <<>>, Bad(Cur, "gave-up"))
  /\ w' = w

StartSession(wd) ==
  /\ w' = wd
  /\ LET s == Fresh(wd) IN
     /\ st' = s.st /\ last' = s.last /\ h' = s.h /\ work' = s.work /\ commits' = s.commits /\ buf' = s.buf
     /\ rlast' = s.rlast /\ rh' = s.rh /\ rwork' = s.rwork /\ procAll' = s.procAll
     /\ pre' = s.pre /\ released' = s.released /\ nlucky' = s.nlucky
  /\ lastAct' = <<"start">> /\ lastRes' = Result(TRUE, TRUE, <<>>, Fresh(wd))

\* ------------------------------------------------------------------ the model peer
Tip == IF st = "PRESYNC" THEN last ELSE rlast
Kids(x) == {y \in {Id("A", x.h + 1), Id("B", x.h + 1)} : IsHeader(y) /\ ParentOf(y) = x}
\* every internally continuous message (the caller, net_processing, has checked continuity) of length n that starts
\* with the given sequence
RECURSIVE Ext(_, _)
Ext(seq, n) == IF Len(seq) = n THEN {seq} ELSE UNION {Ext(Append(seq, y), n) : y \in Kids(seq[Len(seq)])}
\* first header: a child of the tip (connecting), or a header of the universe at the tip's height (repeat), at the next
\* height on the wrong branch, or one further (a gap)
Near == {y \in {Id(c, n) : c \in {"A", "B"}, n \in Tip.h .. Tip.h + 2} : IsHeader(y)}
\* (a message that does not connect fails as a whole whatever follows its first header: length 1 represents them all)
Messages == UNION {Ext(<<f>>, n) : f \in Kids(Tip), n \in 1..MaxBatch} \cup {<<f>> : f \in Near \ Kids(Tip)}
WithBit(seq, b) == [i \in 1..Len(seq) |-> [c |-> seq[i].c, h |-> seq[i].h, b |-> b]]

Init == \E wd \in Worlds :
          /\ w = wd
          /\ LET s == Fresh(wd) IN
             /\ st = s.st /\ last = s.last /\ h = s.h /\ work = s.work /\ commits = s.commits /\ buf = s.buf
             /\ rlast = s.rlast /\ rh = s.rh /\ rwork = s.rwork /\ procAll = s.procAll
             /\ pre = s.pre /\ released = s.released /\ nlucky = s.nlucky
          /\ lastAct = <<"start">> /\ lastRes = Result(TRUE, TRUE, <<>>, Fresh(wd))

\* In the first pass every header carries bit 0; in the second pass `lucky` decides whether the headers of this message
\* that differ from the committed ones collide with the commitment bits (b = 0) or not (b = 1).
Next == /\ st # "FINAL"
        /\ \E m \in Messages, full \in BOOLEAN, lucky \in (IF st = "PRESYNC" THEN {TRUE} ELSE BOOLEAN) :
              Process(WithBit(m, IF lucky THEN 0 ELSE 1), full)

\* The same transitions with multiplicities, for random simulation (engine E2): TLC draws uniformly from the list of
\* successors, so a full message and a colliding bit are listed more often than a short message (which ends most
\* sessions at once) and a mismatch.
SimNext == /\ st # "FINAL"
           /\ \E m \in Messages, fw \in 1..4, lw \in (IF st = "PRESYNC" THEN {2} ELSE 1..2) :
                 /\ (fw = 1 \/ ParentOf(m[1]) = Tip)          \* a message that does not connect: listed once
                 /\ Process(WithBit(m, IF lw > 1 THEN 0 ELSE 1), fw > 1)

Spec == Init /\ [][Next]_vars

\* ------------------------------------------------------------------ the property (C33)
RECURSIVE SumWork(_)
SumWork(seq) == IF seq = <<>> THEN 0 ELSE LW(LvlOf(Head(seq))) + SumWork(Tail(seq))

IsChainFromStart(seq) == \A i \in 1..Len(seq) : /\ seq[i].h = i
                                                /\ ParentOf(seq[i]) = (IF i = 1 THEN StartId ELSE seq[i - 1])
AllPermitted(seq) == \A i \in 1..Len(seq) : PermittedAt(i, LvlOf(ParentOf(seq[i])), LvlOf(seq[i]))

\* (a) nothing is handed out for storage during PRESYNC, nor before the peer has served a connected, difficulty-
\*     consistent chain whose work reaches the minimum
NothingReleasedInPresync == st = "PRESYNC" => released = <<>>
FirstPassIsAChain        == IsChainFromStart(pre) /\ AllPermitted(pre)
ProvenBeforeRelease      == released # <<>> => w.startWork + SumWork(pre) >= w.minWork
\* (b) per-peer memory: commitments never exceed the bound derived from the clock, the look-ahead buffer never holds
\*     more than redownload_buffer_size headers between calls, and FINAL frees both
BoundedMemory == /\ Len(commits) <= w.maxC
                 /\ Len(commits) * w.P <= h + w.P
                 /\ Len(buf) <= w.B
                 /\ st = "FINAL" => commits = <<>> /\ buf = <<>>
\* (c) what is handed out is one continuous chain from the sync start, continued by the buffer
ReleasedIsOneChain == IsChainFromStart(released)
BufferContinuesReleased == st = "REDOWNLOAD" => /\ IsChainFromStart(released \o buf)
                                                /\ rh = Len(released) + Len(buf)
                                                /\ rlast = (IF rh = 0 THEN StartId ELSE (released \o buf)[rh])
\* (d) a header is handed out only when the buffer, with it, holds more than B redownloaded headers (all of which
\*     passed their commitment checks), unless the redownloaded chain itself has reached the minimum work.
\*     Stated on the transition (lastRes' carries the values at the time PopHeadersReadyForAcceptance ran).
BufferRuleStep == \A i \in (Len(released) + 1)..Len(released') : lastRes'.pa \/ lastRes'.rh - i >= w.B
BufferRule == [][BufferRuleStep]_vars
ProcessAllMeansWork == procAll => rwork >= w.minWork
\*     ... and "matched the commitments taken in the first pass": a released header that is not the first-pass header of
\*     its height had at least floor((B+1)/P) commitment bits collide, or the redownloaded chain has the work itself
ForkNeedsLuckOrWork == \A j \in 1..Len(released) :
                          (j > Len(pre) \/ released[j] # pre[j]) => (nlucky >= (w.B + 1) \div w.P \/ rwork >= w.minWork)
\* (e) every released header has a permitted difficulty transition
ReleasedPermitted == AllPermitted(released)

\* ------------------------------------------------------------------ emission for the conformance harness
TipOf(s, l1, l2) == IF s = "PRESYNC" THEN l1 ELSE IF s = "REDOWNLOAD" THEN l2 ELSE StartId
\* observable part (compared with the implementation) ...
Proj == [w |-> w, st |-> st, ph |-> h, pw |-> work, nc |-> Len(commits), nb |-> Len(buf), loc |-> TipOf(st, last, rlast),
\* ... and the rest of the model state under key m, ignored by the harness: it makes the projection injective, so that
\* paths through the emitted graph are paths of the specification
         m |-> [commits |-> commits, buf |-> buf, rh |-> rh, rwork |-> rwork, procAll |-> procAll, pre |-> pre,
                nrel |-> Len(released), nlucky |-> nlucky]]
Res3(r) == [succ |-> r.succ, more |-> r.more, rel |-> r.rel]
View0 == core
Emit == VFEdge(Proj, lastAct' \o <<lastRes'.why>>, Res3(lastRes'), Proj')
====
