CONSTANTS
  Worlds <- NoWorlds
  MaxBatch = 1
INIT TInit
NEXT TNext
INVARIANTS NothingReleasedInPresync FirstPassIsAChain ProvenBeforeRelease BoundedMemory ReleasedIsOneChain
           BufferContinuesReleased ProcessAllMeansWork ForkNeedsLuckOrWork ReleasedPermitted
PROPERTY BufferRule
POSTCONDITION Accepted
CHECK_DEADLOCK FALSE
