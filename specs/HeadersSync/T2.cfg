CONSTANTS
  Worlds <- TinyWorlds
  MaxBatch = 4
INIT Init
NEXT Next
VIEW View0
CHECK_DEADLOCK FALSE
