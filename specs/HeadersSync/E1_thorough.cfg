CONSTANTS
  Worlds <- E1ThoroughWorlds
  MaxBatch = 4
INIT Init
NEXT Next
VIEW View0
INVARIANTS NothingReleasedInPresync FirstPassIsAChain ProvenBeforeRelease BoundedMemory ReleasedIsOneChain
           BufferContinuesReleased ProcessAllMeansWork ForkNeedsLuckOrWork ReleasedPermitted
PROPERTY BufferRule
CHECK_DEADLOCK FALSE
ACTION_CONSTRAINT Emit
