---- MODULE T1 ----
EXTENDS MCHeadersSync
TinyWorlds == Grid(2, 3, 10, 4, {3,4}, QuickA, QuickA, 0..1, {W1 * 6}, {6})
====
