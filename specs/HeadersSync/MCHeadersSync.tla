---- MODULE MCHeadersSync ----
(* Bounded instances of HeadersSync for the model checker: commitment period 2, buffer 3, chains of at most 10
   headers, a fork after every height, both commitment offsets, retarget interval 4 (epochs 0-3, 4-7, 8-10). *)
EXTENDS HeadersSync

Mk(p, b, len, k, ri, a, bb, o, mw, mc) ==
  [P |-> p, B |-> b, L |-> len, K |-> k, RI |-> ri, pa |-> a, pb |-> bb, off |-> o, minWork |-> mw, maxC |-> mc,
   startWork |-> LW(a[1])]
\* The fork's level in an epoch that lies entirely at or below the fork height is never looked at: fix it to chain A's
\* so that equivalent worlds are not explored twice.
Canon(k, ri, a, b) == \A e \in 1..Len(a) : (e * ri - 1 <= k) => b[e] = a[e]
W1 == LW(1)
Grid(p, b, len, ri, Ks, As, Bs, Os, MWs, MCs) ==
  UNION {{Mk(p, b, len, kk[1], ri, kk[2], x, o, mw, mc) : x \in {y \in Bs : Canon(kk[1], ri, kk[2], y)}, o \in Os, mw \in MWs, mc \in MCs} :
         kk \in Ks \X As}

\* quick: period 2, buffer 3, chains of 10, a handful of difficulty profiles (steady, stepping up, down and back; on the fork
\* also a change inside an epoch and a two-level jump, both illegal)
QuickA == {<<1, 1, 1>>, <<1, 2, 2>>, <<1, 0, 1>>}
QuickB == {<<1, 1, 1>>, <<1, 2, 1>>, <<0, 0, 0>>, <<1, 0, 2>>}
QuickWorlds == Grid(2, 3, 10, 4, 0..9, {<<1, 1, 1>>, <<1, 2, 2>>}, QuickB \cup QuickA, 0..1, {W1 * 6}, {6})
               \cup Grid(2, 3, 10, 4, {2, 5, 8}, {<<1, 0, 1>>}, QuickB \cup QuickA, 0..1, {W1 * 9}, {6})
               \cup {Mk(2, 3, 10, k, 4, <<1, 1, 1>>, <<1, 1, 1>>, o, W1 * 10, 3) : k \in {1, 6}, o \in 0..1}

\* thorough: every level profile on both chains at one work threshold; the quick profiles at two more thresholds (the last
\* one out of reach of a steady chain) and both commitment bounds
Lv == 0..2
AllProf == {<<x, y, z>> : x \in Lv, y \in Lv, z \in Lv}
ThoroughWorlds == Grid(2, 3, 10, 4, 0..9, {p \in AllProf : p[1] = 1}, AllProf, 0..1, {W1 * 8}, {6})
                  \cup Grid(2, 3, 10, 4, 0..9, QuickA, QuickB \cup QuickA, 0..1, {W1 * 5, 12000}, {3, 6})
                  \cup QuickWorlds

\* a second geometry: period 3, buffer 4, chains of 9, retarget interval 3
Geo2A == {<<1, 1, 1, 1>>, <<1, 2, 2, 1>>, <<1, 0, 1, 1>>}
Geo2B == {<<1, 1, 1, 1>>, <<1, 2, 3, 3>>, <<1, 1, 0, 2>>}
Geo2Worlds == Grid(3, 4, 9, 3, 0..8, Geo2A, Geo2B \cup Geo2A, 0..2, {W1 * 6, W1 * 8}, {2, 4})

\* the degenerate buffer size 0 (the fuzz target allows it; no chain's parameters use it)
ZeroBufWorlds == {Mk(2, 0, 8, k, 4, a, b, o, mw, 6) :
                  k \in {3, 4, 5}, a \in {<<1, 1, 1>>, <<1, 2, 2>>}, b \in {<<1, 1, 1>>, <<1, 1, 2>>, <<1, 2, 1>>}, o \in 0..1,
                  mw \in {W1 * 7, W1 * 12}}

\* graph replay (engine E1): every transition of these sessions becomes one test on the real HeadersSyncState
E1QuickWorlds == Grid(2, 3, 10, 4, {2, 6}, {<<1, 1, 1>>, <<1, 2, 2>>}, QuickB \cup QuickA, 0..1, {W1 * 6}, {6})
                 \cup {Mk(2, 3, 10, 6, 4, <<1, 1, 1>>, <<1, 1, 1>>, o, W1 * 10, 3) : o \in 0..1}
\* (quick: E1QuickWorlds is a sub-universe of QuickWorlds, emitted by the same TLC run that checks the invariants)
EmitQuick == IF w \in E1QuickWorlds THEN Emit ELSE TRUE
E1ThoroughWorlds == Grid(2, 3, 10, 4, 0..9, {<<1, 1, 1>>, <<1, 2, 2>>}, QuickB \cup QuickA, 0..1, {W1 * 6}, {6})
                 \cup Grid(3, 4, 9, 3, {2, 5}, Geo2A, Geo2B, 0..2, {W1 * 6}, {4})
                 \cup {Mk(2, 3, 10, k, 4, <<1, 1, 1>>, <<1, 1, 1>>, o, W1 * 10, 3) : k \in {1, 6}, o \in 0..1}

\* simulation (engine E2)
SimWorlds == QuickWorlds \cup Geo2Worlds
====
