CONSTANTS
  Worlds <- SimWorlds
  MaxBatch = 5
INIT Init
NEXT SimNext
INVARIANTS NothingReleasedInPresync FirstPassIsAChain ProvenBeforeRelease BoundedMemory ReleasedIsOneChain
           BufferContinuesReleased ProcessAllMeansWork ForkNeedsLuckOrWork ReleasedPermitted
PROPERTY BufferRule
CHECK_DEADLOCK FALSE
ACTION_CONSTRAINT Emit
