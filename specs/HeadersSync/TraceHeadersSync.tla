---- MODULE TraceHeadersSync ----
(* Engine E3: is the recorded sequence of calls of the real HeadersSyncState (harness/adapters/headerssync.cpp, mode
   "drive") a behaviour of HeadersSync?  One line per call:
     {"e":"Reset","w":{P,B,L,K,RI,pa,pb,off,minWork,maxC,startWork}}         a new HeadersSyncState for world w
     {"e":"Proc","ids":[{c,h,b}..],"full":bool,                              ProcessNextHeaders(ids, full); b = real salted bit
      "succ":bool,"more":bool,"rel":[{c,h}..],"st":..,"ph":..,"pw":..,"nc":..,"nb":..,"loc":{c,h}}
   C33 is a SAFE-mode property: where the specification would go on but the implementation gave up without handing
   anything out (FINAL, nothing released, no further request) the specification takes the refusal as given (action GiveUp)
   and the step is reported as a conservative divergence.  All invariants of HeadersSync are evaluated on every state. *)
EXTENDS HeadersSync, Json, IOUtils
TraceLog == ndJsonDeserialize(IOEnv.TRACE)
VARIABLE l
tvars == <<vars, l>>
Line == TraceLog[l]
IsEvent(e) == l <= Len(TraceLog) /\ Line.e = e /\ l' = l + 1

NoWorlds == {}
BlankWorld == [P |-> 1, B |-> 1, L |-> 0, K |-> 0, RI |-> 1, pa |-> <<0>>, pb |-> <<0>>, off |-> 0, minWork |-> 0, maxC |-> 0,
               startWork |-> 0]
TInit == /\ l = 1 /\ w = BlankWorld
         /\ LET s == Finalize(Fresh(BlankWorld)) IN
            /\ st = s.st /\ last = s.last /\ h = s.h /\ work = s.work /\ commits = s.commits /\ buf = s.buf
            /\ rlast = s.rlast /\ rh = s.rh /\ rwork = s.rwork /\ procAll = s.procAll
            /\ pre = s.pre /\ released = s.released /\ nlucky = s.nlucky
         /\ lastAct = <<"none">> /\ lastRes = Result(TRUE, FALSE, <<>>, Fresh(BlankWorld))

TReset == IsEvent("Reset") /\ StartSession(Line.w)

\* what the call returned and what the object shows afterwards, against the specification's successor state
Agrees(o) ==
  /\ Line.succ = o.r.succ /\ Line.more = o.r.more /\ Line.rel = o.r.rel
  /\ Line.st = o.s.st /\ Line.ph = o.s.h /\ Line.nc = Len(o.s.commits) /\ Line.nb = Len(o.s.buf)
  /\ (o.s.st # "FINAL" => Line.pw = o.s.work /\ Line.loc = TipOf(o.s.st, o.s.last, o.s.rlast))
GaveUpLine == Line.st = "FINAL" /\ Line.rel = <<>> /\ ~Line.more /\ Line.nc = 0 /\ Line.nb = 0

TProc == /\ IsEvent("Proc")
         /\ st \in {"PRESYNC", "REDOWNLOAD"}
         /\ IF Agrees(Outcome(Line.ids, Line.full))
            THEN Process(Line.ids, Line.full)
            ELSE /\ GaveUpLine
                 /\ GiveUp(Line.ids, Line.full)
                 /\ PrintT("VF|" \o ToJson([kind |-> "conservative", line |-> l, expected |-> Outcome(Line.ids, Line.full).r.why]))

TNext == TReset \/ TProc
Accepted == TLCGet("stats").diameter - 1 = Len(TraceLog)
TView == <<core, l>>
====
