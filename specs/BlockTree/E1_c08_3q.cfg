CONSTANTS
  MaxBlocks = 3
  MaxInv = 1
  Kinds = {"ok", "badconn", "badacc"}
  Spans = {1}
  MinWork = 0
  Requested = {TRUE}
  KeepWindow = 288
INIT Init
NEXT Next
VIEW View0
INVARIANTS TipIsMostWork NoFailedInChain ChainHasData FailedClosed NoBadInChain CandSane
ACTION_CONSTRAINT Emit
CHECK_DEADLOCK FALSE
