CONSTANTS
  MaxBlocks = 4
  MaxInv = 0
  Kinds = {"ok", "badconn", "badacc"}
  Spans = {1}
  MinWork = 0
  Requested = {TRUE, FALSE}
  KeepWindow = 288
INIT Init
NEXT Next
VIEW View0
INVARIANTS TipIsMostWork NoFailedInChain ChainHasData FailedClosed NoBadInChain CandSane
PROPERTY PostOK
CHECK_DEADLOCK FALSE
