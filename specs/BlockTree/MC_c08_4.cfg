CONSTANTS
  MaxBlocks = 4
  MaxInv = 0
  Kinds = {"ok", "badconn", "badacc"}
  Spans = {1}
  MinWork = 0
  Requested = {TRUE, FALSE}
  KeepWindow = 288
  FullSpans = {}
  WorldFilter = "any"
INIT Init
NEXT Next
VIEW View0
INVARIANTS TipIsMostWork TipIsMostWorkTrue NoFailedInChain ChainHasData FailedClosed NoBadInChain CandSane
PROPERTY PostOK
CHECK_DEADLOCK FALSE
