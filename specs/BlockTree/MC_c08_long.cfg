CONSTANTS
  MaxBlocks = 4
  MaxInv = 0
  Kinds = {"ok", "badconn"}
  Spans = {10, 11, 34, 40}
  MinWork = 0
  Requested = {TRUE}
  KeepWindow = 288
  FullSpans = {10, 11, 34, 40}
  WorldFilter = "longreorg"
INIT Init
NEXT Next
VIEW View0
INVARIANTS TipIsMostWork TipIsMostWorkTrue NoFailedInChain ChainHasData FailedClosed NoBadInChain CandSane
PROPERTY PostOK
CHECK_DEADLOCK FALSE
