---- MODULE BlockTreeObs ----
(* Deviation handling for C08 / C58 (DESIGN 8, INV mode): the node's observable state after some step differed from the   *)
(* deterministic prediction of BlockTree.  That is a violation only if the observed state breaks what the properties     *)
(* state.  Each line of the file named by env OBS is                                                                     *)
(*   {world: {n, parent, kind, span}, pre: {hdr, data, failed, tip}, act: [...], post: {hdr, data, failed, tip}}         *)
(* (pre = the model's state before the step, which the implementation still agreed with).  TLC evaluates the C08 state   *)
(* invariants on `post` and the action postconditions on (pre, act, post).                                               *)
EXTENDS BlockTree, Json, IOUtils
ObsLines == ndJsonDeserialize(IOEnv.OBS)
VARIABLE idx
ToSet(s) == {s[i] : i \in 1..Len(s)}
\* JSON arrays are 1-based sequences: world.parent etc. were emitted from functions over 0..MaxBlocks
Fn(s) == [b \in Ids |-> IF b + 1 <= Len(s) THEN s[b + 1] ELSE 0]
FnS(s) == [b \in Ids |-> IF b + 1 <= Len(s) THEN s[b + 1] ELSE "ok"]
FnSp(s) == [b \in Ids |-> IF b + 1 <= Len(s) THEN s[b + 1] ELSE 1]
InitObs == /\ idx \in 1..Len(ObsLines)
           /\ LET L == ObsLines[idx] IN
              /\ n = L.world.n /\ parent = Fn(L.world.parent) /\ kind = FnS(L.world.kind) /\ span = FnSp(L.world.span)
              /\ hdr = ToSet(L.pre.hdr) /\ data = ToSet(L.pre.data) /\ failed = ToSet(L.pre.failed) /\ tip = L.pre.tip
           /\ linked = {} /\ seq = [b \in Ids |-> 0] /\ nextSeq = 0 /\ unlinked = <<>> /\ cand = {} /\ ninv = 0 /\ minv = ToSet(ObsLines[idx].inv)
           /\ lastAct = <<"observed", idx>> /\ lastRes = <<"none">>
Stutter == UNCHANGED <<vars, idx>>
Post == ObsLines[idx].post
Act == ObsLines[idx].act
PH == ToSet(Post.hdr)  PD == ToSet(Post.data)  PF == ToSet(Post.failed)
\* C08 on the observed post state
ObsTipIsMostWork == TipIsMostWorkIn(parent, span, PH, PD, PF, Post.tip)
ObsTipIsMostWorkTrue == TipIsMostWorkTrueIn(parent, span, kind, ToSet(ObsLines[idx].postinv), PH, PD, Post.tip)
ObsNoFailedInChain == NoFailedInChainIn(parent, PF, Post.tip)
ObsChainHasData == ChainHasDataIn(parent, PD, Post.tip)
ObsNoBadInChain == \A x \in AncP(parent, Post.tip) : kind[x] = "ok"
\* a block known to be invalid never has an unmarked descendant *in the chain* (weaker than FailedClosed, which is bookkeeping)
ObsInvalidateOK == Act[1] = "invalidate" => InvalidateOK(Act[2], PF, Post.tip)
ObsReconsiderOK == Act[1] = "reconsider" => ReconsiderOK(Act[2], PF)
\* C58
ObsUnrequestedOK == (Act[1] = "block" /\ ~Act[3]) => UnrequestedOK(Act[2], PD, PF)
ObsRequestedOK == (Act[1] = "block" /\ Act[3]) => RequestedOK(Act[2], PD)
====
