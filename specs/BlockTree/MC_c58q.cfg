CONSTANTS
  MaxBlocks = 2
  MaxInv = 0
  Kinds = {"ok", "badacc"}
  Spans = {1, 288, 289}
  MinWork = 0
  Requested = {TRUE, FALSE}
  KeepWindow = 288
  FullSpans = {}
  WorldFilter = "any"
INIT Init
NEXT Next
VIEW View0
INVARIANTS TipIsMostWork TipIsMostWorkTrue NoFailedInChain ChainHasData FailedClosed NoBadInChain CandSane
PROPERTY PostOK
CHECK_DEADLOCK FALSE
