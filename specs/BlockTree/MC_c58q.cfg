CONSTANTS
  MaxBlocks = 2
  MaxInv = 0
  Kinds = {"ok", "badacc"}
  Spans = {1, 288, 289}
  MinWork = 0
  Requested = {TRUE, FALSE}
  KeepWindow = 288
INIT Init
NEXT Next
VIEW View0
INVARIANTS TipIsMostWork NoFailedInChain ChainHasData FailedClosed NoBadInChain CandSane
PROPERTY PostOK
CHECK_DEADLOCK FALSE
