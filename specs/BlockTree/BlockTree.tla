---- MODULE BlockTree ----
(***************************************************************************)
(* Header / block arrival, validity marks and chain selection as coded in  *)
(* src/validation.cpp: AcceptBlockHeader, AcceptBlock (incl. the anti-DoS  *)
(* rule for unrequested blocks), ReceivedBlockTransactions (sequence ids,  *)
(* m_blocks_unlinked), FindMostWorkChain, ActivateBestChainStep,           *)
(* InvalidBlockFound / InvalidChainFound, InvalidateBlock,                 *)
(* ResetBlockFailureFlags.  The candidate set is modelled as the code      *)
(* maintains it, so C08's invariants are a genuine check of that           *)
(* bookkeeping.  Properties: C08 (most-work valid tip), C58 (unrequested   *)
(* blocks).                                                                *)
(*                                                                         *)
(* World: blocks 1..n created by Mine(parent, kind, span).  kind:          *)
(*   "ok" | "badconn" (fails in ConnectBlock) | "badacc" (fails in         *)
(*   ContextualCheckBlock).  span > 1: the block stands for the last block *)
(*   of a chain of `span` blocks whose intermediate blocks exist as        *)
(*   headers only (used to reach the 288-block "too far ahead" rule); such *)
(*   a block can be stored but never linked/connected - unless the span    *)
(*   is in FullSpans: then all its blocks are real and delivered together, *)
(*   and the chain is connected as a unit (reorgs of more than 32 blocks). *)
(***************************************************************************)
EXTENDS Integers, Sequences, FiniteSets, TLC, VF
CONSTANTS MaxBlocks, MaxInv, Kinds, Spans, MinWork, Requested, KeepWindow,
          WorldFilter, \* "any" or the name of a scenario restriction (see WorldOK)
          FullSpans    \* spans whose intermediate blocks are delivered too: a connectable chain of that many blocks (long reorgs)
Ids == 0..MaxBlocks
\* scenario restriction: which (parent, kind, span) block number i may have (TRUE everywhere in the generic configurations)
WorldOK(i, p, k, sp) == WorldFilter = "any" \/ (WorldFilter = "longreorg" /\
    \/ (i = 1 /\ p = 0 /\ k = "ok" /\ sp = 40)          \* the old tip: 40 blocks
    \/ (i = 2 /\ p = 0 /\ k = "ok" /\ sp = 34)          \* common segment of the competing branches: more than one 32-block batch
    \/ (i = 3 /\ p = 2 /\ k = "ok" /\ sp = 10)          \* valid branch, total 44
    \/ (i = 4 /\ p = 2 /\ sp = 11))                     \* longer branch (45) whose last block may be invalid
VARIABLES n, parent, kind, span,      \* the world
          hdr, data, failed, linked, seq, nextSeq, unlinked, cand, tip,   \* the node
          ninv, minv,                 \* number of / blocks under a manual invalidation (invalidateblock)
          lastAct, lastRes
world == <<n, parent, kind, span>>
node == <<hdr, data, failed, linked, seq, nextSeq, unlinked, cand, tip>>
vars == <<world, node, ninv, minv, lastAct, lastRes>>
View0 == <<world, node, ninv, minv>>

RECURSIVE HeightP(_, _, _)
HeightP(P, SP, b) == IF b = 0 THEN 0 ELSE SP[b] + HeightP(P, SP, P[b])
Height(b) == HeightP(parent, span, b)
Work(b) == Height(b)                       \* equal difficulty: work = height
RECURSIVE AncP(_, _)
AncP(P, b) == IF b = 0 THEN {0} ELSE {b} \cup AncP(P, P[b])
Anc(b) == AncP(parent, b)
Desc(b, S) == {x \in S : b \in Anc(x)}
\* CBlockIndexWorkComparator: less work is worse; equal work: later sequence id is worse
Worse(a, b, sq) == \/ Work(a) < Work(b)
                   \/ Work(a) = Work(b) /\ sq[a] > sq[b]
Best(S, sq) == CHOOSE b \in S : \A c \in S \ {b} : Worse(c, b, sq)
LCA(a, b) == CHOOSE x \in Anc(a) \cap Anc(b) : \A y \in Anc(a) \cap Anc(b) : Height(y) <= Height(x)
RECURSIVE Ord(_)
Ord(T) == IF T = {} THEN <<>>
          ELSE LET lo == CHOOSE x \in T : \A y \in T : Height(x) <= Height(y)
               IN <<lo>> \o Ord(T \ {lo})
PathTo(f, p) == Ord(Anc(p) \ Anc(f))

Init == /\ n = 0 /\ parent = [b \in Ids |-> 0] /\ kind = [b \in Ids |-> "ok"] /\ span = [b \in Ids |-> 1]
        /\ hdr = {0} /\ data = {0} /\ failed = {} /\ linked = {0}
        /\ seq = [b \in Ids |-> IF b = 0 THEN 0 ELSE -1] /\ nextSeq = 1
        /\ unlinked = <<>> /\ cand = {0} /\ tip = 0 /\ ninv = 0 /\ minv = {}
        /\ lastAct = <<"init">> /\ lastRes = <<"none">>

\* FindMostWorkChain. E = [hdr, data, seq]: the index as seen by the activation code
RECURSIVE FMWC(_, _, _, _)
FMWC(E, cd, fl, tp) ==
  IF cd = {} THEN [p |-> -1, cand |-> cd]
  ELSE LET p == Best(cd, E.seq)
           off == Anc(p) \ Anc(tp)
           bad == {t \in off : t \in fl \/ t \notin E.data}
       IN IF bad = {} THEN [p |-> p, cand |-> cd]
          ELSE LET t == CHOOSE x \in bad : \A y \in bad : Height(y) <= Height(x)
               IN FMWC(E, cd \ {x \in Anc(p) : Height(x) >= Height(t)}, fl, tp)

\* ActivateBestChainStep: connect along the path; a failing block marks itself and its descendants failed
RECURSIVE ConnectPath(_, _, _)
ConnectPath(E, st, path) ==
  IF path = <<>> THEN [st EXCEPT !.ok = TRUE]
  ELSE LET c == Head(path) IN
       IF kind[c] = "badconn"
       THEN [cand |-> st.cand \ {c}, failed |-> st.failed \cup Desc(c, E.hdr), tip |-> st.tip, ok |-> FALSE]
       ELSE ConnectPath(E, [st EXCEPT !.tip = c, !.cand = {x \in st.cand : ~Worse(x, c, E.seq)}], Tail(path))

RECURSIVE Activate(_, _)
Activate(E, st) ==
  LET r == FMWC(E, st.cand, st.failed, st.tip) IN
  IF r.p = -1 \/ r.p = st.tip THEN [st EXCEPT !.cand = r.cand]
  ELSE LET f == LCA(st.tip, r.p)
           st2 == ConnectPath(E, [cand |-> r.cand, failed |-> st.failed, tip |-> f, ok |-> TRUE], PathTo(f, r.p))
       IN IF st2.ok THEN st2 ELSE Activate(E, st2)

\* ReceivedBlockTransactions: walk the queue of blocks that become linked, assign sequence ids, add candidates
RECURSIVE LinkQueue(_, _)
LinkQueue(q, s) ==
  IF q = <<>> THEN s
  ELSE LET b == Head(q)
           sq2 == [s.seq EXCEPT ![b] = s.nextSeq]
           addc == IF Worse(b, tip, sq2) THEN s.cand ELSE s.cand \cup {b}
           kids == SelectSeq(s.unlinked, LAMBDA e : e[1] = b)
           rest == SelectSeq(s.unlinked, LAMBDA e : e[1] # b)
           kidq == [i \in 1..Len(kids) |-> kids[i][2]]
       IN LinkQueue(Tail(q) \o kidq,
                    [linked |-> s.linked \cup {b}, seq |-> sq2, nextSeq |-> s.nextSeq + 1,
                     cand |-> addc, unlinked |-> rest])

Mine(p, k, sp) == /\ n < MaxBlocks /\ p \in 0..n /\ WorldOK(n + 1, p, k, sp)
                  /\ n' = n + 1
                  /\ parent' = [parent EXCEPT ![n + 1] = p]
                  /\ kind' = [kind EXCEPT ![n + 1] = k]
                  /\ span' = [span EXCEPT ![n + 1] = sp]
                  /\ UNCHANGED <<node, ninv, minv>>
                  /\ lastAct' = <<"mine", p, k, sp>> /\ lastRes' = <<"none">>

\* AcceptBlockHeader outcome for a header b: "known", "known-failed", "no-prev", "bad-prev", "new"
HeaderCase(b) == IF b \in hdr THEN (IF b \in failed THEN "known-failed" ELSE "known")
                 ELSE IF parent[b] \notin hdr THEN "no-prev"
                 ELSE IF parent[b] \in failed THEN "bad-prev" ELSE "new"

DeliverHeader(b) ==
  /\ b \in 1..n
  /\ hdr' = IF HeaderCase(b) = "new" THEN hdr \cup {b} ELSE hdr
  /\ UNCHANGED <<world, data, failed, linked, seq, nextSeq, unlinked, cand, tip, ninv, minv>>
  /\ lastAct' = <<"header", b>>
  /\ lastRes' = IF HeaderCase(b) \in {"new", "known"} THEN <<"true">> ELSE <<"false">>

\* the anti-DoS rule of AcceptBlock for blocks the node did not ask for (C58)
StoreAllowed(b) == /\ Work(b) >= Work(tip)
                   /\ Height(b) <= Height(tip) + KeepWindow
                   /\ Work(b) >= MinWork

\* ProcessNewBlock(block, force_processing = req). Result <<return value, new_block>>
DeliverBlock(b, req) ==
  /\ b \in 1..n
  /\ UNCHANGED <<world, ninv, minv>>
  /\ lastAct' = <<"block", b, req>>
  /\ LET hc == HeaderCase(b) IN
     IF hc \in {"known-failed", "no-prev", "bad-prev"}
     THEN /\ UNCHANGED node /\ lastRes' = <<"false", "false">>
     ELSE IF b \in data
     THEN /\ UNCHANGED node /\ lastRes' = <<"true", "false">>
     ELSE IF ~req /\ ~StoreAllowed(b)
     THEN \* dropped: only the header is kept, nothing is marked
          /\ hdr' = hdr \cup {b}
          /\ UNCHANGED <<data, failed, linked, seq, nextSeq, unlinked, cand, tip>>
          /\ lastRes' = <<"true", "false">>
     ELSE IF kind[b] = "badacc"
     THEN /\ hdr' = hdr \cup {b}
          /\ failed' = failed \cup Desc(b, hdr \cup {b})
          /\ UNCHANGED <<data, linked, seq, nextSeq, unlinked, cand, tip>>
          /\ lastRes' = <<"false", "false">>
     ELSE LET h2 == hdr \cup {b}
              d2 == data \cup {b}
              s0 == [linked |-> linked, seq |-> seq, nextSeq |-> nextSeq, cand |-> cand, unlinked |-> unlinked]
              s1 == IF span[b] > 1 /\ span[b] \notin FullSpans THEN s0      \* intermediate blocks missing: nChainTx stays 0 for ever
                    ELSE IF parent[b] \in linked THEN LinkQueue(<<b>>, s0)
                    ELSE [s0 EXCEPT !.unlinked = Append(unlinked, <<parent[b], b>>)]
              a == Activate([hdr |-> h2, data |-> d2, seq |-> s1.seq],
                            [cand |-> s1.cand, failed |-> failed, tip |-> tip, ok |-> TRUE])
          IN /\ hdr' = h2 /\ data' = d2
             /\ linked' = s1.linked /\ seq' = s1.seq /\ nextSeq' = s1.nextSeq /\ unlinked' = s1.unlinked
             /\ cand' = a.cand /\ failed' = a.failed /\ tip' = a.tip
             /\ lastRes' = <<"true", "true">>

\* InvalidateBlock(b) followed by ActivateBestChain (as the RPC does)
RECURSIVE InvLoop(_, _, _)
InvLoop(E, b, st) ==  \* st = [cand, failed, tip, high, last]
  IF b \notin Anc(st.tip) THEN st
  ELSE LET d == st.tip
           nt == parent[d]
           hi1 == {c \in st.high : Work(c) >= Work(nt)}
           dead == {c \in hi1 : d \in Anc(c)}
           addc == {c \in hi1 \ dead : ~Worse(c, nt, E.seq) /\ c \in E.data /\ c \in linked /\ c \notin st.failed}
       IN InvLoop(E, b, [cand |-> ((st.cand \ {d}) \cup {nt}) \cup addc,
                         failed |-> st.failed \cup {d} \cup dead,
                         tip |-> nt, high |-> st.high \ dead, last |-> d])

Invalidate(b) ==
  /\ ninv < MaxInv /\ b \in hdr /\ b # 0
  /\ LET E == [hdr |-> hdr, data |-> data, seq |-> seq]
         high == {c \in hdr : c \notin Anc(tip) /\ ~Worse(c, parent[b], seq) /\ c \notin failed}
         st1 == InvLoop(E, b, [cand |-> cand, failed |-> failed, tip |-> tip, high |-> high, last |-> b])
         f2 == IF b \in Anc(tip) THEN st1.failed ELSE st1.failed \cup {b}
         c2 == IF b \in Anc(tip) THEN st1.cand ELSE st1.cand \ {b}
         c3 == c2 \cup {x \in hdr : x \in data /\ x \in linked /\ x \notin f2 /\ ~Worse(x, st1.tip, seq)}
         f3 == f2 \cup Desc(st1.last, hdr)
         a == Activate(E, [cand |-> c3, failed |-> f3, tip |-> st1.tip, ok |-> TRUE])
     IN /\ cand' = a.cand /\ failed' = a.failed /\ tip' = a.tip
  /\ ninv' = ninv + 1 /\ minv' = minv \cup {b}
  /\ UNCHANGED <<world, hdr, data, linked, seq, nextSeq, unlinked>>
  /\ lastAct' = <<"invalidate", b>> /\ lastRes' = <<"none">>

\* ResetBlockFailureFlags(b) followed by ActivateBestChain (reconsiderblock)
Reconsider(b) ==
  /\ ninv < MaxInv /\ b \in hdr /\ b # 0
  /\ LET E == [hdr |-> hdr, data |-> data, seq |-> seq]
         clr == {x \in failed : b \in Anc(x) \/ x \in Anc(b)}
         f2 == failed \ clr
         c2 == cand \cup {x \in clr : x \in data /\ x \in linked /\ Worse(tip, x, seq)}
         a == Activate(E, [cand |-> c2, failed |-> f2, tip |-> tip, ok |-> TRUE])
     IN /\ cand' = a.cand /\ failed' = a.failed /\ tip' = a.tip
  \* reconsiderblock lifts the marks of b's ancestors and descendants only: a block on a sibling branch that was marked together
  \* with a lifted root (invalidateblock marks all known descendants) stays invalid by the operator's earlier decision
  /\ ninv' = ninv + 1
  /\ LET rel(x) == b \in Anc(x) \/ x \in Anc(b)
         lifted == {x \in minv : rel(x)}
     IN minv' = (minv \ lifted) \cup {y \in hdr : y \in failed /\ ~rel(y) /\ \E x \in lifted : x \in Anc(y)}
  /\ UNCHANGED <<world, hdr, data, linked, seq, nextSeq, unlinked>>
  /\ lastAct' = <<"reconsider", b>> /\ lastRes' = <<"none">>

Next == \/ \E p \in Ids, k \in Kinds, sp \in Spans : Mine(p, k, sp)
        \/ \E b \in Ids : DeliverHeader(b) \/ Invalidate(b) \/ Reconsider(b)
        \/ \E b \in Ids, req \in Requested : DeliverBlock(b, req)
Spec == Init /\ [][Next]_vars

----
\* ---- C08, as predicates over (world, observable node state) so that they can also be evaluated on states observed
\* ---- in the implementation (module BlockTreeObs)
Whole(sp) == sp = 1 \/ sp \in FullSpans
EligibleIn(P, SP, H, D, F, b) == b \in H /\ Whole(SP[b]) /\ \A x \in AncP(P, b) : x \in D /\ x \notin F /\ Whole(SP[x])
TipIsMostWorkIn(P, SP, H, D, F, t) == \A b \in H : EligibleIn(P, SP, H, D, F, b) => HeightP(P, SP, b) <= HeightP(P, SP, t)
NoFailedInChainIn(P, F, t) == AncP(P, t) \cap F = {}
ChainHasDataIn(P, D, t) == AncP(P, t) \subseteq D
\* no descendant of an invalid block in the chain: implied by NoFailedInChain once failure is descendant-closed
FailedClosedIn(P, H, F) == \A b \in H : (b # 0 /\ P[b] \in F) => b \in F

TipIsMostWork == TipIsMostWorkIn(parent, span, hdr, data, failed, tip)
\* the same with validity taken from the world instead of the node's own failure marks: a valid block wrongly marked failed must
\* not let the node settle on a chain with less work ("no block known to be invalid" = genuinely invalid or manually invalidated)
GenuinelyOK(K, MI, P, b) == \A x \in AncP(P, b) : K[x] = "ok" /\ x \notin MI
TipIsMostWorkTrueIn(P, SP, K, MI, H, D, t) ==
  \A b \in H : (Whole(SP[b]) /\ GenuinelyOK(K, MI, P, b) /\ \A x \in AncP(P, b) : x \in D /\ Whole(SP[x])) => HeightP(P, SP, b) <= HeightP(P, SP, t)
TipIsMostWorkTrue == TipIsMostWorkTrueIn(parent, span, kind, minv, hdr, data, tip)
NoFailedInChain == NoFailedInChainIn(parent, failed, tip)
ChainHasData == ChainHasDataIn(parent, data, tip)
FailedClosed == FailedClosedIn(parent, hdr, failed)
\* genuinely bad blocks are never in the active chain
NoBadInChain == \A x \in Anc(tip) : kind[x] = "ok"
\* the candidate set always contains the tip and only linked, stored blocks (CheckBlockIndex)
CandSane == tip \in cand /\ \A c \in cand : c \in data /\ c \in linked

\* action postconditions (C08: invalidate / reconsider; C58: unrequested blocks), over pre-state, action, post-state
InvalidateOK(b, F2, t2) == b \notin AncP(parent, t2) /\ b \in F2
\* after reconsider(b) every failed block related to b is justified by a genuinely bad ancestor-or-self
ReconsiderOK(b, F2) == \A x \in F2 : (b \in Anc(x) \/ x \in Anc(b)) => \E y \in Anc(x) : kind[y] # "ok"
\* C58: an unrequested block that fails the rule is neither stored nor marked invalid
UnrequestedOK(b, D2, F2) == (b \notin data /\ ~StoreAllowed(b) /\ HeaderCase(b) \in {"known", "new"}) =>
                               (b \notin D2 /\ (b \in F2 => b \in failed))
\* ... and a requested block whose header is acceptable and that passes the context checks is stored
RequestedOK(b, D2) == (HeaderCase(b) \in {"known", "new"} /\ kind[b] # "badacc") => b \in D2

PostOK == [][ /\ (lastAct'[1] = "invalidate" => InvalidateOK(lastAct'[2], failed', tip'))
              /\ (lastAct'[1] = "reconsider" => ReconsiderOK(lastAct'[2], failed'))
              /\ ((lastAct'[1] = "block" /\ ~lastAct'[3]) => UnrequestedOK(lastAct'[2], data', failed'))
              /\ ((lastAct'[1] = "block" /\ lastAct'[3]) => RequestedOK(lastAct'[2], data')) ]_vars

\* bound for configurations that allow duplicates: nothing (state space is finite because the node state is)
World == [n |-> n, parent |-> parent, kind |-> kind, span |-> span]
Obs == [hdr |-> hdr, data |-> data, failed |-> failed, tip |-> tip]
Proj == [world |-> World, obs |-> Obs]
Emit == VFEdgeK(View0, Proj, lastAct', lastRes', View0', Proj')
====
