CONSTANTS
  MaxBlocks = 4
  MaxInv = 9
  Kinds = {"ok", "badconn", "badacc"}
  Spans = {1, 10, 11, 34, 40, 288, 289}
  MinWork = 0
  Requested = {TRUE, FALSE}
  KeepWindow = 288
  FullSpans = {10, 11, 34, 40}
  WorldFilter = "any"
INIT InitObs
NEXT Stutter
INVARIANTS ObsTipIsMostWork ObsTipIsMostWorkTrue ObsNoFailedInChain ObsChainHasData ObsNoBadInChain ObsInvalidateOK ObsReconsiderOK ObsUnrequestedOK ObsRequestedOK
CHECK_DEADLOCK FALSE
