CONSTANTS
  MaxBlocks = 5
  MaxInv = 9
  Kinds = {"ok", "badconn", "badacc"}
  Spans = {1, 288, 289}
  MinWork = 0
  Requested = {TRUE, FALSE}
  KeepWindow = 288
INIT InitObs
NEXT Stutter
INVARIANTS ObsTipIsMostWork ObsNoFailedInChain ObsChainHasData ObsNoBadInChain ObsInvalidateOK ObsReconsiderOK ObsUnrequestedOK ObsRequestedOK
CHECK_DEADLOCK FALSE
