CONSTANTS
  MaxBlocks = 5
  MaxInv = 9
  Kinds = {"ok", "badconn", "badacc"}
  Spans = {1, 288, 289}
  MinWork = 0
  Requested = {TRUE, FALSE}
  KeepWindow = 288
  FullSpans = {}
  WorldFilter = "any"
INIT InitObs
NEXT Stutter
INVARIANTS ObsTipIsMostWork ObsTipIsMostWorkTrue ObsNoFailedInChain ObsChainHasData ObsNoBadInChain ObsInvalidateOK ObsReconsiderOK ObsUnrequestedOK ObsRequestedOK
CHECK_DEADLOCK FALSE
