CONSTANTS
  N = 6
  MaxCount = 3
  MaxSize = 5
  Fees <- FeesSim
  Sizes = {1, 2}
  AccCosts = {0, 1, 100000}
  Budgets = {0, 1, 1000000}
  QSets <- QSetsDef
  BiasTrim = TRUE
  FinalAt = 60
  ScriptMix = 30
  BigSize = 6
  SetFees <- SetFeesDef
INIT Init
NEXT Next
VIEW View0
ACTION_CONSTRAINT Emit
CHECK_DEADLOCK FALSE
