CONSTANTS
  N = 2
  MaxCount = 2
  MaxSize = 2
  Fees <- FeesMC
  Sizes = {1, 2}
  AccCosts = {0}
  Budgets = {0}
  QSets <- QSetsDef
  BiasTrim = FALSE
  FinalAt = 0
  ScriptMix = 0
  BigSize = 4
  SetFees <- SetFeesMC
INIT Init
NEXT Next
VIEW View0
INVARIANTS TypeOK RefsOK NaiveOK SnapOK OrderingSatisfiable
PROPERTIES StagingOK TrimOK RemoveOK
CHECK_DEADLOCK FALSE
