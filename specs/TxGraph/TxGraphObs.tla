---- MODULE TxGraphObs ----
(***************************************************************************)
(* Engine E3 for C25: the ordering answers and the Trim results that        *)
(* harness/adapters/txgraph.cpp logged while replaying TLC-generated         *)
(* behaviours of TxGraph on the real TxGraph are judged here.               *)
(*                                                                         *)
(* Every line of the file named by env OBS is an independent observation    *)
(* and becomes one initial state (variables = the model state in which the   *)
(* answers were given, exactly as TxGraph.tla emitted it):                   *)
(*   {kind: "epoch", state, ans: [...]}   all ordering answers obtained      *)
(*        between two calls that may change a linearization:                 *)
(*        {q:"cluster", lvl, order}          GetCluster's order              *)
(*        {q:"chunkfr", t, fs}               GetMainChunkFeerate             *)
(*        {q:"cmp", a, b, r}                 CompareMainOrder (-1, 0, 1)     *)
(*        {q:"worst", txs, fs}               GetWorstMainChunk               *)
(*        {q:"walk", steps:[{txs, fs, dec}], ended}   a BlockBuilder walk    *)
(*        {q:"diagrams", main, staging}      GetMainStagingDiagrams          *)
(*   {kind: "trim", state, R, after}      Trim returned R in `state`;        *)
(*        after = the structural answers of the top graph right after it     *)
(*                                                                         *)
(* OrderingConsistent is the relation of C25: there exist, per cluster of    *)
(* main, one topological order whose chunks are connected, and one merge of  *)
(* the clusters' chunk sequences with non-increasing feerates, such that     *)
(* every answer about main derives from them; per cluster of staging one     *)
(* such order from which GetCluster(TOP) and the staging diagram derive.     *)
(* TLC resolves the existential by enumeration (clusters of a non-oversized  *)
(* graph have at most MaxCount transactions).                               *)
(***************************************************************************)
EXTENDS TxGraph, Json, IOUtils
ObsLines == ndJsonDeserialize(IOEnv.OBS)
VARIABLE idx
ToSet(s) == {s[i] : i \in 1..Len(s)}
GraphOf(j) == [txs |-> ToSet(j.txs), anc |-> {<<p[1], p[2]>> : p \in ToSet(j.anc)}]
Fn(s) == [t \in Tx |-> s[t]]
InitObs == /\ idx \in 1..Len(ObsLines)
           /\ LET S == ObsLines[idx].state IN
              /\ main = GraphOf(S.main) /\ staging = GraphOf(S.staging) /\ hs = S.hs
              /\ ref = Fn(S.ref) /\ fee = Fn(S.fee) /\ size = Fn(S.size) /\ snap = S.snap /\ bb = S.bb
              /\ acc = S.cfg.acc /\ step = 0 /\ script = <<>> /\ sel = 0
           /\ lastAct = <<"observed", idx>> /\ lastRes = "none"
Stutter == UNCHANGED <<vars, idx>>

Line == ObsLines[idx]
A == Line.ans
Sel(q) == {i \in 1..Len(A) : A[i].q = q}
MainKinds == {"chunkfr", "cmp", "worst", "walk", "diagrams"}
NeedMain == \E i \in 1..Len(A) : A[i].q \in MainKinds \/ (A[i].q = "cluster" /\ A[i].lvl = "main")
NeedStaging == \E i \in 1..Len(A) : A[i].q = "diagrams" \/ (A[i].q = "cluster" /\ A[i].lvl = "staging")

Pos(L, t) == CHOOSE i \in 1..Len(L) : L[i] = t
Sign(x) == IF x < 0 THEN 0 - 1 ELSE IF x > 0 THEN 1 ELSE 0
ChunkWith(chs, t) == chs[CHOOSE i \in 1..Len(chs) : t \in Range(chs[i].t)]
\* answers that concern one cluster only
LocalOK(g, lvl, L) ==
  LET S == Range(L)  chs == ChunksOf(fee, size, L) IN
  /\ GoodOrder(g, fee, size, L)
  /\ \A i \in Sel("cluster") : (A[i].lvl = lvl /\ Range(A[i].order) \cap S # {}) => A[i].order = L
  /\ lvl = "main" =>
       /\ \A i \in Sel("chunkfr") : A[i].t \in S => LET ch == ChunkWith(chs, A[i].t) IN A[i].fs = <<ch.f, ch.s>>
       /\ \A i \in Sel("cmp") : (A[i].a \in S /\ A[i].b \in S) => A[i].r = Sign(Pos(L, A[i].a) - Pos(L, A[i].b))
Cand(g, lvl) == [c \in Clusters(g) |-> {L \in TopoOrdersOf(g, c) : LocalOK(g, lvl, L)}]
\* all ways of picking one candidate per cluster
RECURSIVE Prod(_, _)
Prod(CS, cand) == IF CS = {} THEN {[x \in {} |-> <<>>]}
                  ELSE LET c == CHOOSE c \in CS : TRUE IN {f @@ (c :> L) : f \in Prod(CS \ {c}, cand), L \in cand[c]}
\* the chunk sequences of the chosen orders, each chunk tagged with its cluster
Tagged(f) == [c \in DOMAIN f |-> LET chs == ChunksOf(fee, size, f[c]) IN [i \in 1..Len(chs) |-> [f |-> chs[i].f, s |-> chs[i].s, t |-> chs[i].t, c |-> c]]]
\* all merges with non-increasing chunk feerates: always take a head of (joint) highest feerate
RECURSIVE Merges(_)
Merges(rem) ==
  LET ne == {c \in DOMAIN rem : rem[c] # <<>>} IN
  IF ne = {} THEN {<<>>}
  ELSE LET best == {c \in ne : \A d \in ne : ~Higher(rem[d][1], rem[c][1])} IN
       UNION {{<<rem[c][1]>> \o m : m \in Merges([rem EXCEPT ![c] = Tail(@)])} : c \in best}
RECURSIVE Flat(_)
Flat(Gs) == IF Gs = <<>> THEN <<>> ELSE Gs[1].t \o Flat(Tail(Gs))
\* the BlockBuilder walk: chunks in the order of Gs, those of a cluster a chunk of which was skipped are left out
RECURSIVE WalkFrom(_, _, _, _, _)
WalkFrom(Gs, i, excl, w, k) ==
  IF i > Len(Gs) THEN k > Len(w.steps)
  ELSE IF Gs[i].c \in excl THEN WalkFrom(Gs, i + 1, excl, w, k)
  ELSE IF k > Len(w.steps) THEN ~w.ended
  ELSE /\ w.steps[k].txs = Gs[i].t /\ w.steps[k].fs = <<Gs[i].f, Gs[i].s>>
       /\ WalkFrom(Gs, i + 1, IF w.steps[k].dec = "skip" THEN excl \cup {Gs[i].c} ELSE excl, w, k + 1)
WorstOK(Gs, a) ==
  IF main.txs = {} THEN a.txs = <<>> /\ a.fs = <<0, 0>>
  ELSE LET ch == Gs[Len(Gs)] IN
       /\ Len(a.txs) = Len(ch.t) /\ Range(a.txs) = Range(ch.t) /\ a.fs = <<ch.f, ch.s>>
       \* reverse-topological: every element is preceded by all its descendants
       /\ \A j \in 1..Len(a.txs) : \A d \in Desc(main, a.txs[j]) \cap Range(a.txs) : Pos(a.txs, d) <= j
GlobalOK(Gs) ==
  LET F == Flat(Gs) IN
  /\ \A i \in Sel("cmp") : A[i].r = Sign(Pos(F, A[i].a) - Pos(F, A[i].b))
  /\ \A i \in Sel("walk") : WalkFrom(Gs, 1, {}, A[i], 1)
  /\ \A i \in Sel("worst") : WorstOK(Gs, A[i])
\* diagrams: the chunk feerates of all clusters except some that are identical in main and staging, in non-increasing order
Count(s, x) == Cardinality({i \in 1..Len(s) : s[i] = x})
SameBag(s1, s2) == Len(s1) = Len(s2) /\ \A x \in Range(s1) \cup Range(s2) : Count(s1, x) = Count(s2, x)
NonIncr(d) == \A i \in 1..(Len(d) - 1) : d[i + 1][1] * d[i][2] <= d[i][1] * d[i + 1][2]
RECURSIVE FeeratesOf(_, _)
FeeratesOf(tg, CS) == IF CS = {} THEN <<>>
                      ELSE LET c == CHOOSE c \in CS : TRUE IN [i \in 1..Len(tg[c]) |-> <<tg[c][i].f, tg[c][i].s>>] \o FeeratesOf(tg, CS \ {c})
Restrict(g, c) == {e \in g.anc : e[1] \in c /\ e[2] \in c}
Identical == {c \in Clusters(main) \cap Clusters(staging) : Restrict(main, c) = Restrict(staging, c)}
DiagramsOK(tm, ts) ==
  \A i \in Sel("diagrams") :
    /\ NonIncr(A[i].main) /\ NonIncr(A[i].staging)
    /\ \E X \in SUBSET Identical : /\ SameBag(A[i].main, FeeratesOf(tm, Clusters(main) \ X))
                                   /\ SameBag(A[i].staging, FeeratesOf(ts, Clusters(staging) \ X))
MainOK(ts) ==
  IF ~NeedMain THEN TRUE
  ELSE \E f \in Prod(Clusters(main), Cand(main, "main")) :
         LET tm == Tagged(f) IN
         /\ \E Gs \in Merges(tm) : GlobalOK(Gs)
         /\ DiagramsOK(tm, ts)
OrderingConsistent ==
  Line.kind = "epoch" =>
    IF ~NeedStaging THEN MainOK(<<>>)
    ELSE \E fs \in Prod(Clusters(staging), Cand(staging, "staging")) : MainOK(Tagged(fs))
\* the answers were given under the documented preconditions (otherwise the model or the harness is wrong, not the code)
PreconditionsHeld == Line.kind = "epoch" => /\ (NeedMain => ~OvMain)
                                            /\ (NeedStaging => hs /\ ~Ov("top"))

\* Trim
TrimR == ToSet(Line.R)
TrimPostcondition == Line.kind = "trim" => TrimOKIn(Top, size, TrimR)
StructG(g) == [count |-> Cardinality(g.txs), ov |-> [flag |-> OversizedG(g, size), exact |-> TRUE], exists |-> [t \in Tx |-> t \in g.txs],
               rel |-> [t \in Tx |-> [anc |-> SortedSeq(AncQ(g, t)), desc |-> SortedSeq(DescQ(g, t)), cluster |-> SortedSeq(ClusterQ(g, t))]]]
\* ... and right after it the graph answers like the naive graph without R
TrimAftermath == (Line.kind = "trim" /\ TrimOKIn(Top, size, TrimR)) => Line.after = StructG(RemoveG(Top, TrimR))
====
