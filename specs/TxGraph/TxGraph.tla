---- MODULE TxGraph ----
(***************************************************************************)
(* C25: the transaction graph (src/txgraph.h, TxGraphImpl in txgraph.cpp)   *)
(* answers like a naive graph with a consistent linearization.              *)
(*                                                                         *)
(* The model is the naive graph: `main` and `staging` are records           *)
(* [txs, anc] (anc = the strict ancestor relation, transitively closed -    *)
(* the interface is explicitly designed for implementations that only keep  *)
(* the closure), `fee`/`size` belong to the Ref (a fee change applies to     *)
(* both levels), `ref[t]` says whether slot t holds an initialised Ref.      *)
(* One action per public call of TxGraph, carrying the call's arguments and  *)
(* the interface's documented precondition as enabling condition:           *)
(*   - mutators go to staging when it exists, to main otherwise;            *)
(*   - while a BlockBuilder exists no mutator may touch main;               *)
(*   - transactions are removed (RemoveTransaction, ~Ref) only as           *)
(*     ancestor-closed or descendant-closed batches, because the interface  *)
(*     reserves the right to reorder removals with dependency additions;    *)
(*   - inspectors that need a non-oversized graph are enabled only then.    *)
(* Structural answers (existence, ancestors, descendants, clusters, counts, *)
(* oversize, individual feerate) are functions of the naive graph: lastRes  *)
(* predicts them exactly.  Ordering answers (GetCluster order, chunk        *)
(* feerates, CompareMainOrder, block builder, worst chunk, diagrams) are    *)
(* not predicted here: the harness logs them and TxGraphObs.tla decides the *)
(* relation "there is one topological linearization per cluster with        *)
(* connected chunks from which all of them derive".  Trim is specified by   *)
(* its postcondition (ValidTrims).                                          *)
(*                                                                         *)
(* One documented exception to "oversize status equals the naive graph's":  *)
(* destroying a Ref while staging exists does not clear main's              *)
(* oversizedness until staging is aborted or committed.  StartStaging       *)
(* evaluates main's status (it has to, in order to apply all dependencies), *)
(* and no mutator reaches main while staging exists, so IsOversized(MAIN)   *)
(* answers that snapshot (`snap`) until then; where the snapshot differs    *)
(* from the naive graph the answer is left open (see Stale).                 *)
(***************************************************************************)
EXTENDS Integers, Sequences, FiniteSets, TLC, VF
CONSTANTS N,          \* transaction slots 1..N (a slot can be reused after its Ref was destroyed)
          MaxCount,   \* max_cluster_count
          MaxSize,    \* max_cluster_size
          Fees, Sizes,
          AccCosts,   \* acceptable_cost values (a parameter of MakeTxGraph; no observable the property talks about depends on it)
          Budgets,    \* DoWork budgets
          QSets,      \* argument sets for the *Union / CountDistinctClusters queries
          BiasTrim,   \* generator only: Trim picks an inclusion-minimal valid set (what a best-effort strategy usually returns)
          FinalAt,    \* generator only: at step FinalAt-1 the only enabled action is the full sweep (0: never, and steps are not counted)
          ScriptMix,  \* generator only: Init draws sel from 0..ScriptMix; sel in 1..Len(Scripts) starts the behaviour with that script
          BigSize,    \* size of the occasional big transaction
          SetFees     \* fees SetTransactionFee chooses from

Tx == 1..N
Levels == {"main", "top"}
Dirs == {"anc", "desc"}
Empty == [txs |-> {}, anc |-> {}]

VARIABLES main, staging, hs,     \* the two graphs; hs = a staging graph exists (staging = Empty otherwise)
          ref,                   \* ref[t] \in {"none", "live"}
          fee, size,             \* per Ref (0 when the transaction is in neither graph)
          snap,                  \* what IsOversized(MAIN) answers while staging exists
          bb,                    \* "none" / "open": a BlockBuilder exists
          acc,                   \* acceptable_cost of this TxGraph
          step,
          script, sel,           \* generator only: the scripted calls still to be made first (see Scripts)
          lastAct, lastRes
vars == <<main, staging, hs, ref, fee, size, snap, bb, acc, step, script, sel, lastAct, lastRes>>

----------------------------------------------------------------------------
(* The naive graph *)
RECURSIVE SortedSeq(_)
SortedSeq(S) == IF S = {} THEN <<>> ELSE LET x == CHOOSE x \in S : \A y \in S : x <= y IN <<x>> \o SortedSeq(S \ {x})
RECURSIVE SumOver(_, _)
SumOver(f, S) == IF S = {} THEN 0 ELSE LET x == CHOOSE x \in S : TRUE IN f[x] + SumOver(f, S \ {x})

Anc(g, t) == {t} \cup {a \in g.txs : <<a, t>> \in g.anc}
Desc(g, t) == {t} \cup {d \in g.txs : <<t, d>> \in g.anc}
AncS(g, S) == UNION {Anc(g, t) : t \in S \cap g.txs}
DescS(g, S) == UNION {Desc(g, t) : t \in S \cap g.txs}
RECURSIVE ReachG(_, _)
ReachG(g, R) == LET R2 == R \cup {y \in g.txs : \E x \in R : <<x, y>> \in g.anc \/ <<y, x>> \in g.anc}
                IN IF R2 = R THEN R ELSE ReachG(g, R2)
ClusterOf(g, t) == ReachG(g, {t})
Clusters(g) == {ClusterOf(g, t) : t \in g.txs}
OversizedG(g, sz) == \E c \in Clusters(g) : Cardinality(c) > MaxCount \/ SumOver(sz, c) > MaxSize
\* AddDependency on a closure: every ancestor of the parent becomes an ancestor of every descendant of the child
AddDepG(g, p, c) == [g EXCEPT !.anc = @ \cup {<<a, d>> : a \in Anc(g, p), d \in Desc(g, c)}]
RemoveG(g, S) == [txs |-> g.txs \ S, anc |-> {e \in g.anc : e[1] \notin S /\ e[2] \notin S}]
AddTxG(g, t) == [g EXCEPT !.txs = @ \cup {t}]

Top == IF hs THEN staging ELSE main
G(l) == IF l = "top" /\ hs THEN staging ELSE main
OvMain == IF hs THEN snap ELSE OversizedG(main, size)
Ov(l) == IF l = "top" /\ hs THEN OversizedG(staging, size) ELSE OvMain
\* The documented exception: after a Ref destruction while staging exists, main may still be reported oversized although the naive
\* graph no longer is. The interface only says the status "will not be cleared"; an implementation that does clear it would answer
\* like the naive graph, so in that situation the answer is not predicted, and inspectors that need a non-oversized main stay disabled.
Stale(l) == ~(l = "top" /\ hs) /\ hs /\ snap /\ ~OversizedG(main, size)
\* mutators of the top graph need "no BlockBuilder, or staging exists"
MayMutateTop == bb = "none" \/ hs

\* Trim's postcondition: the removed set R is closed under descendants, afterwards no cluster exceeds a limit, and
\* nothing happens unless the graph is oversized
DescClosed(g, R) == \A t \in R : Desc(g, t) \subseteq R
TrimOKIn(g, sz, R) == /\ R \subseteq g.txs
                      /\ DescClosed(g, R)
                      /\ ~OversizedG(RemoveG(g, R), sz)
                      /\ (~OversizedG(g, sz) => R = {})
ValidTrims(g, sz) == {R \in SUBSET g.txs : TrimOKIn(g, sz, R)}
MinimalTrims(g, sz) == LET V == ValidTrims(g, sz) IN {R \in V : \A R2 \in V : R2 \subseteq R => R2 = R}

\* closure of {t} under ancestors (descendants) in main and staging together: what may be destroyed as one batch
RECURSIVE DestroyClosure(_, _)
DestroyClosure(D, dir) ==
  LET D2 == D \cup (IF dir = "anc" THEN AncS(main, D) \cup AncS(staging, D) ELSE DescS(main, D) \cup DescS(staging, D))
  IN IF D2 = D THEN D ELSE DestroyClosure(D2, dir)

----------------------------------------------------------------------------
(* Answers *)
AncQ(g, t) == IF t \in g.txs THEN Anc(g, t) ELSE {}
DescQ(g, t) == IF t \in g.txs THEN Desc(g, t) ELSE {}
ClusterQ(g, t) == IF t \in g.txs THEN ClusterOf(g, t) ELSE {}
Ifr(t) == IF t \in main.txs \cup staging.txs THEN <<fee[t], size[t]>> ELSE <<0, 0>>
StructOf(l) == LET g == G(l) IN
  [count |-> Cardinality(g.txs), ov |-> [flag |-> Ov(l), exact |-> ~Stale(l)], exists |-> [t \in Tx |-> t \in g.txs],
   rel |-> IF Ov(l) THEN <<>>
           ELSE [t \in Tx |-> [anc |-> SortedSeq(AncQ(g, t)), desc |-> SortedSeq(DescQ(g, t)), cluster |-> SortedSeq(ClusterQ(g, t))]]]
SweepRes == [main |-> StructOf("main"), top |-> StructOf("top"), hs |-> hs, ifr |-> [t \in Tx |-> Ifr(t)],
             diag |-> (hs /\ ~OvMain /\ ~Ov("top"))]

----------------------------------------------------------------------------
\* Scripted openings for the generator. Each element is a prefix of an action tuple (lastAct) that the next call has to match.
\* They make sure every run contains the shape "a dependency is added onto a cluster, applied by an inspector that needs no
\* linearization, and a transaction is removed before anything asks for the order" (a cluster merged and split again while its
\* linearization still needs fixing), in main and in staging, with and without a child paying for its parent.
LazyMergeSplit(c, x, p, fc, fx, fp, q) ==
  <<<<"add", c, fc, 1>>, <<"add", x, fx, 1>>, <<"dep", c, x>>, <<"sweep">>, <<"add", p, fp, 2>>, <<"dep", p, c>>, q, <<"remove", x, "desc">>, <<"sweep">>>>
Scripts == <<
  LazyMergeSplit(1, 2, 3, 1, 2, 0, <<"desc", 3, "top">>),
  LazyMergeSplit(1, 2, 3, 0, 4, 2, <<"descu", <<1, 2>>, "top">>),
  LazyMergeSplit(1, 2, 3, 2, 1, 4, <<"ndistinct", <<1, 2>>, "top">>),
  LazyMergeSplit(1, 2, 3, 1, 1, 1, <<"anc", 2, "main">>),
  <<<<"start">>>> \o LazyMergeSplit(2, 3, 4, 1, 2, 0, <<"desc", 4, "top">>),
  <<<<"add", 6, 1, 1>>, <<"start">>>> \o LazyMergeSplit(1, 2, 3, 0, 2, 4, <<"descu", <<1, 2>>, "top">>) >>
Matches(a) == IF script = <<>> THEN TRUE ELSE LET h == Head(script) IN a[1] = h[1] /\ \A i \in 2..Len(h) : a[i] = h[i]

Init == /\ main = Empty /\ staging = Empty /\ hs = FALSE
        /\ sel \in 0..ScriptMix /\ script = (IF sel \in 1..Len(Scripts) THEN Scripts[sel] ELSE <<>>)
        /\ ref = [t \in Tx |-> "none"] /\ fee = [t \in Tx |-> 0] /\ size = [t \in Tx |-> 0]
        /\ snap = FALSE /\ bb = "none" /\ acc \in AccCosts /\ step = 0
        /\ lastAct = <<"init">> /\ lastRes = "none"

Going == step # FinalAt - 1
Fin(a, r) == /\ Matches(a) /\ script' = (IF script = <<>> THEN <<>> ELSE Tail(script)) /\ sel' = sel
             /\ lastAct' = a /\ lastRes' = r
             /\ step' = (IF FinalAt = 0 THEN step ELSE step + 1)
             /\ acc' = acc
\* fee/size are kept only for transactions that are in some graph (canonical states)
Canon(nm, ns, f, z) == /\ fee' = [t \in Tx |-> IF t \in nm.txs \cup ns.txs THEN f[t] ELSE 0]
                       /\ size' = [t \in Tx |-> IF t \in nm.txs \cup ns.txs THEN z[t] ELSE 0]
SetTop(g) == IF hs THEN main' = main /\ staging' = g ELSE main' = g /\ staging' = staging
NewTop(g) == IF hs THEN <<main, g>> ELSE <<g, staging>>

\* AddTransaction(arg, feerate): arg must be an empty Ref
AddTx(t, f, z) ==
  /\ Going /\ MayMutateTop /\ ref[t] = "none"
  /\ SetTop(AddTxG(Top, t))
  /\ ref' = [ref EXCEPT ![t] = "live"]
  /\ fee' = [fee EXCEPT ![t] = f] /\ size' = [size EXCEPT ![t] = z]
  /\ UNCHANGED <<hs, snap, bb>>
  /\ Fin(<<"add", t, f, z>>, "none")

\* RemoveTransaction of t together with all its ancestors / descendants in the top graph (no-op if t is not there:
\* already removed, or an empty Ref). asc: the order in which the batch is handed to RemoveTransaction.
RemoveBatch(t, dir, asc) ==
  LET B == IF t \in Top.txs THEN (IF dir = "anc" THEN Anc(Top, t) ELSE Desc(Top, t)) ELSE {}
      nt == NewTop(RemoveG(Top, B)) IN
  /\ Going /\ MayMutateTop
  /\ main' = nt[1] /\ staging' = nt[2]
  /\ Canon(nt[1], nt[2], fee, size)
  /\ UNCHANGED <<hs, ref, snap, bb>>
  /\ Fin(<<"remove", t, dir, asc, SortedSeq(B)>>, "none")

\* AddDependency(parent, child): parent may not be a descendant of child; no-op when either is not in the top graph
AddDep(p, c) ==
  /\ Going /\ MayMutateTop /\ p # c
  /\ ~(p \in Top.txs /\ c \in Top.txs /\ p \in Desc(Top, c))
  /\ SetTop(IF p \in Top.txs /\ c \in Top.txs THEN AddDepG(Top, p, c) ELSE Top)
  /\ UNCHANGED <<hs, ref, fee, size, snap, bb>>
  /\ Fin(<<"dep", p, c>>, "none")

\* SetTransactionFee: both levels; not while a BlockBuilder exists
SetFee(t, f) ==
  /\ Going /\ bb = "none"
  /\ fee' = [fee EXCEPT ![t] = IF t \in main.txs \cup staging.txs THEN f ELSE @]
  /\ UNCHANGED <<main, staging, hs, ref, size, snap, bb>>
  /\ Fin(<<"setfee", t, f>>, "none")

StartStaging(k) ==
  /\ Going /\ ~hs
  /\ hs' = TRUE /\ staging' = main /\ snap' = OversizedG(main, size)
  /\ UNCHANGED <<main, ref, fee, size, bb>>
  /\ Fin(<<"start">>, "none")

CommitStaging(k) ==
  /\ Going /\ hs /\ bb = "none"
  /\ hs' = FALSE /\ main' = staging /\ staging' = Empty /\ snap' = FALSE
  /\ Canon(staging, Empty, fee, size)
  /\ UNCHANGED <<ref, bb>>
  /\ Fin(<<"commit">>, "none")

AbortStaging(k) ==
  /\ Going /\ hs
  /\ hs' = FALSE /\ staging' = Empty /\ snap' = FALSE
  /\ Canon(main, Empty, fee, size)
  /\ UNCHANGED <<main, ref, bb>>
  /\ Fin(<<"abort">>, "none")

\* Trim: any set allowed by the postcondition (the implementation's choice is compared with the postcondition, see props/C25.py)
Trim(k) ==
  /\ Going /\ MayMutateTop
  /\ \E R \in (IF BiasTrim THEN MinimalTrims(Top, size) ELSE ValidTrims(Top, size)) :
       LET nt == NewTop(RemoveG(Top, R)) IN
       /\ main' = nt[1] /\ staging' = nt[2]
       /\ Canon(nt[1], nt[2], fee, size)
       /\ Fin(<<"trim">>, SortedSeq(R))
  /\ UNCHANGED <<hs, ref, snap, bb>>

\* DoWork(budget): no observable the property talks about changes; the returned flag is not predicted
DoWork(b) ==
  /\ Going
  /\ UNCHANGED <<main, staging, hs, ref, fee, size, snap, bb>>
  /\ Fin(<<"dowork", b>>, "any")

\* ~Ref of t and of everything that has to go with it (closed under ancestors or descendants in both graphs). While a
\* BlockBuilder exists, no Ref of a transaction in main may be destroyed.
Destroy(t, dir) ==
  LET D == DestroyClosure({t}, dir) IN
  /\ Going /\ \A d \in D : ref[d] = "live"
  /\ bb = "open" => D \cap main.txs = {}
  /\ main' = RemoveG(main, D) /\ staging' = RemoveG(staging, D)
  /\ ref' = [x \in Tx |-> IF x \in D THEN "none" ELSE ref[x]]
  /\ Canon(RemoveG(main, D), RemoveG(staging, D), fee, size)
  /\ UNCHANGED <<hs, snap, bb>>
  /\ Fin(<<"destroy", dir, SortedSeq(D)>>, "none")

\* GetBlockBuilder / GetCurrentChunk + Include|Skip / ~BlockBuilder. What the builder returns is an ordering answer.
BBStart(k) == /\ Going /\ bb = "none" /\ ~OvMain
              /\ bb' = "open"
              /\ UNCHANGED <<main, staging, hs, ref, fee, size, snap>>
              /\ Fin(<<"bbstart">>, "none")
BBStep(dec, k) == /\ Going /\ bb = "open"
                  /\ UNCHANGED <<main, staging, hs, ref, fee, size, snap, bb>>
                  /\ Fin(<<"bbstep", dec>>, "any")
BBEnd(k) == /\ Going /\ bb = "open"
            /\ bb' = "none"
            /\ UNCHANGED <<main, staging, hs, ref, fee, size, snap>>
            /\ Fin(<<"bbend">>, "none")

\* inspectors
Query(a, r) == /\ Going
               /\ UNCHANGED <<main, staging, hs, ref, fee, size, snap, bb>>
               /\ Fin(a, r)
QExists(t, l) == Query(<<"exists", t, l>>, t \in G(l).txs)
QCount(l) == Query(<<"count", l>>, Cardinality(G(l).txs))
QOversized(l, k) == Query(<<"oversized", l>>, IF Stale(l) THEN "any" ELSE Ov(l))
QHaveStaging == Query(<<"havestaging">>, hs)
QIfr(t) == Query(<<"ifr", t>>, Ifr(t))
QAnc(t, l) == ~Ov(l) /\ Query(<<"anc", t, l>>, SortedSeq(AncQ(G(l), t)))
QDesc(t, l) == ~Ov(l) /\ Query(<<"desc", t, l>>, SortedSeq(DescQ(G(l), t)))
QCluster(t, l) == ~Ov(l) /\ Query(<<"cluster", t, l>>, SortedSeq(ClusterQ(G(l), t)))      \* the order is an ordering answer
QAncU(S, l) == ~Ov(l) /\ Query(<<"ancu", SortedSeq(S), l>>, SortedSeq(AncS(G(l), S)))
QDescU(S, l) == ~Ov(l) /\ Query(<<"descu", SortedSeq(S), l>>, SortedSeq(DescS(G(l), S)))
QDistinct(S, l) == ~Ov(l) /\ Query(<<"ndistinct", SortedSeq(S), l>>, Cardinality({ClusterOf(G(l), t) : t \in S \cap G(l).txs}))
\* ordering inspectors (main must not be oversized); the structural part of the answer is predicted
QChunkFr(t) == ~OvMain /\ Query(<<"chunkfr", t>>, [empty |-> t \notin main.txs])
QCmp(a, b) == ~OvMain /\ a \in main.txs /\ b \in main.txs /\ Query(<<"cmp", a, b>>, [equal |-> a = b])
QWorst(k) == ~OvMain /\ Query(<<"worst">>, [empty |-> main.txs = {}])
QDiagrams(k) == hs /\ ~OvMain /\ ~Ov("top") /\ Query(<<"diagrams">>, "any")
\* every inspector that is available, for every argument (one consistent snapshot for the ordering relation)
Sweep(k) == /\ UNCHANGED <<main, staging, hs, ref, fee, size, snap, bb>>
            /\ Fin(<<"sweep">>, SweepRes)

\* Generator weights: TLC -simulate picks uniformly among the sub-actions of Next (one per value of a constant-bounded \E), so
\* a dummy parameter k \in WS(n) gives an action n times the weight. In model-checking configurations (FinalAt = 0) WS(n) = {1}.
WS(n) == 1..(IF FinalAt = 0 THEN 1 ELSE n)
Asc == step % 2 = 0
DirOf(t) == IF FinalAt = 0 THEN (IF t % 2 = 0 THEN "anc" ELSE "desc") ELSE (IF (t + step) % 2 = 0 THEN "anc" ELSE "desc")
InTop(t) == t \in Top.txs
Mutators ==
  \/ \E t \in Tx, f \in Fees, z \in Sizes, k \in WS(2) : AddTx(t, f, z)
  \/ \E t \in {1, N} : AddTx(t, 1, BigSize)                                    \* individually oversized (if BigSize > MaxSize)
  \/ \E t \in Tx : InTop(t) /\ RemoveBatch(t, DirOf(t), Asc)
  \/ \E t \in Tx : ~InTop(t) /\ RemoveBatch(t, "anc", Asc)                  \* no-op: already removed, or an empty Ref
  \/ \E p \in Tx, c \in Tx, k \in WS(3) : InTop(p) /\ InTop(c) /\ AddDep(p, c)
  \/ \E p \in Tx : ~(InTop(p) /\ InTop((p % N) + 1)) /\ AddDep(p, (p % N) + 1)   \* no-op
  \/ \E p \in Tx : ~(InTop(p) /\ InTop((p % N) + 1)) /\ AddDep((p % N) + 1, p)   \* no-op
  \/ \E t \in Tx, f \in SetFees : t \in main.txs \cup staging.txs /\ SetFee(t, f)
  \/ \E t \in Tx : t \notin main.txs \cup staging.txs /\ SetFee(t, 3)     \* no-op
  \/ \E k \in WS(8) : StartStaging(k)
  \/ \E k \in WS(12) : CommitStaging(k)
  \/ \E k \in WS(6) : AbortStaging(k)
  \/ \E k \in WS(12) : OversizedG(Top, size) /\ Trim(k)
  \/ \E k \in WS(2) : ~OversizedG(Top, size) /\ Trim(k)                    \* no effect
  \/ \E b \in Budgets, k \in WS(3) : DoWork(b)
  \/ \E t \in Tx : Destroy(t, DirOf(t))
  \/ \E k \in WS(3) : BBStart(k)
  \/ \E d \in {"include", "skip"}, k \in WS(8) : BBStep(d, k)
  \/ \E k \in WS(6) : BBEnd(k)
Inspectors ==
  \/ \E t \in Tx, l \in Levels : QExists(t, l)
  \/ \E l \in Levels : QCount(l)
  \/ \E l \in Levels, k \in WS(3) : QOversized(l, k)
  \/ QHaveStaging
  \/ \E t \in Tx : QIfr(t)
  \/ \E t \in Tx, l \in Levels : QAnc(t, l)
  \/ \E t \in Tx, l \in Levels : QDesc(t, l)
  \/ \E t \in Tx, l \in Levels : QCluster(t, l)
  \/ \E S \in QSets, l \in Levels : QAncU(S, l)
  \/ \E S \in QSets, l \in Levels : QDescU(S, l)
  \/ \E S \in QSets, l \in Levels : QDistinct(S, l)
  \/ \E t \in Tx : QChunkFr(t)
  \/ \E a \in Tx, b \in Tx : QCmp(a, b)
  \/ \E k \in WS(2) : QWorst(k)
  \/ \E k \in WS(6) : QDiagrams(k)
  \/ \E k \in WS(8) : Sweep(k)
Next == Mutators \/ Inspectors
\* (model checking: the inspectors do not change the state)
NextMut == Mutators \/ \E k \in WS(1) : Sweep(k)
Spec == Init /\ [][Next]_vars

----------------------------------------------------------------------------
(* The clauses of C25 that can be decided on the model itself *)
WellFormedG(g) == /\ g.txs \subseteq Tx /\ g.anc \subseteq g.txs \X g.txs
                  /\ \A e \in g.anc : e[1] # e[2] /\ <<e[2], e[1]>> \notin g.anc                       \* acyclic
                  /\ \A e1 \in g.anc, e2 \in g.anc : e1[2] = e2[1] => <<e1[1], e2[2]>> \in g.anc       \* closed
TypeOK == /\ WellFormedG(main) /\ WellFormedG(staging)
          /\ hs \in BOOLEAN /\ snap \in BOOLEAN /\ bb \in {"none", "open"}
          /\ ref \in [Tx -> {"none", "live"}]
          /\ (~hs => staging = Empty /\ ~snap)
\* every transaction in a graph has its Ref; fee/size are defined exactly for those
RefsOK == \A t \in Tx : /\ (t \in main.txs \cup staging.txs => ref[t] = "live" /\ size[t] \in Sizes \cup {BigSize})
                        /\ (t \notin main.txs \cup staging.txs => fee[t] = 0 /\ size[t] = 0)
\* the naive answers are mutually consistent (ancestors/descendants are converse, a cluster is closed under both and is
\* the component of each of its members)
NaiveOK == \A l \in Levels : LET g == G(l) IN
             \A t \in g.txs : /\ \A a \in Anc(g, t) : t \in Desc(g, a)
                              /\ \A d \in Desc(g, t) : t \in Anc(g, d)
                              /\ Anc(g, t) \cup Desc(g, t) \subseteq ClusterOf(g, t)
                              /\ \A u \in ClusterOf(g, t) : ClusterOf(g, u) = ClusterOf(g, t)
\* the documented exception: main's reported oversize status may be stale (true) while staging exists, never the reverse
SnapOK == hs => (OversizedG(main, size) => snap)
\* the ordering relation is satisfiable: every cluster of a non-oversized graph has a topological order all of whose
\* chunks are connected (so TxGraphObs never rejects for lack of a candidate)
Higher(a, b) == a.f * b.s > b.f * a.s
RECURSIVE Ext(_, _, _)
Ext(anc, pre, rem) == IF rem = {} THEN {pre}
                      ELSE UNION {Ext(anc, Append(pre, x), rem \ {x}) : x \in {y \in rem : \A z \in rem : <<z, y>> \notin anc}}
TopoOrdersOf(g, c) == Ext(g.anc, <<>>, c)
Last(s) == s[Len(s)]
Front(s) == SubSeq(s, 1, Len(s) - 1)
RECURSIVE Absorb(_, _)
Absorb(ac, c) == IF ac # <<>> /\ Higher(c, Last(ac))
                 THEN Absorb(Front(ac), [f |-> c.f + Last(ac).f, s |-> c.s + Last(ac).s, t |-> Last(ac).t \o c.t])
                 ELSE Append(ac, c)
RECURSIVE ChunkFrom(_, _, _, _, _)
ChunkFrom(f, z, L, i, ac) == IF i > Len(L) THEN ac
                             ELSE ChunkFrom(f, z, L, i + 1, Absorb(ac, [f |-> f[L[i]], s |-> z[L[i]], t |-> <<L[i]>>]))
\* the chunking of the order L: sequence of [f: fee, s: size, t: the chunk's transactions in L order]
ChunksOf(f, z, L) == ChunkFrom(f, z, L, 1, <<>>)
Range(s) == {s[i] : i \in DOMAIN s}
ConnectedIn(g, S) == S = {} \/ ReachG([txs |-> S, anc |-> {e \in g.anc : e[1] \in S /\ e[2] \in S}], {CHOOSE x \in S : TRUE}) = S
GoodOrder(g, f, z, L) == \A ch \in Range(ChunksOf(f, z, L)) : ConnectedIn(g, Range(ch.t))
OrderingSatisfiable == \A l \in Levels : ~Ov(l) => \A c \in Clusters(G(l)) : \E L \in TopoOrdersOf(G(l), c) : GoodOrder(G(l), fee, size, L)
\* action properties: what each level-changing call does to the two graphs
IsAct(n) == lastAct'[1] = n
StagingOK == [][/\ (IsAct("start") => staging' = main /\ main' = main)
                /\ (IsAct("commit") => main' = staging)
                /\ (IsAct("abort") => main' = main)
                /\ ((hs /\ hs' /\ ~IsAct("destroy")) => main' = main)                 \* with staging, mutators leave main alone
                /\ ((bb = "open" /\ bb' = "open") => main' = main /\ \A t \in main.txs : fee'[t] = fee[t])   \* a builder freezes main
               ]_vars
TrimOK == [][IsAct("trim") => /\ TrimOKIn(Top, size, Range(lastRes'))
                              /\ Top' = RemoveG(Top, Range(lastRes'))
                              /\ (~Ov("top"))']_vars
\* a removal never leaves a dependency through a removed transaction dangling or lost: the remaining relation is the old
\* one restricted (what "closed batches" buys)
RemoveOK == [][(IsAct("remove") \/ IsAct("destroy")) =>
                 \A l \in Levels : (G(l))'.anc = {e \in G(l).anc : e[1] \in (G(l))'.txs /\ e[2] \in (G(l))'.txs}]_vars

----------------------------------------------------------------------------
\* constant sets a cfg file cannot spell
QSetsDef == {{}, Tx, {1, 2}, {2, N - 1}, {1, 3, N}}
FeesSim == {-1, 0, 1, 2, 4}
SetFeesDef == {0, 3}
SetFeesMC == {2}
FeesMC == {0, 1, 3}
FeesMC2 == {0, 2}
FeesMC1 == {1}
GJ(g) == [txs |-> SortedSeq(g.txs), anc |-> g.anc]
Proj == [main |-> GJ(main), staging |-> GJ(staging), hs |-> hs, ref |-> ref, fee |-> fee, size |-> size, snap |-> snap,
         bb |-> bb, cfg |-> [count |-> MaxCount, size |-> MaxSize, acc |-> acc], step |-> step]
View0 == <<main, staging, hs, ref, fee, size, snap, bb, acc, step, script, sel>>
Emit == VFEdge(Proj, lastAct', lastRes', Proj')
====
