CONSTANTS
  N = 7
  MaxCount = 4
  MaxSize = 7
  Fees <- FeesSim
  Sizes = {1, 2, 3}
  AccCosts = {0, 1, 100000}
  Budgets = {0}
  QSets <- QSetsDef
  BiasTrim = FALSE
  FinalAt = 0
  ScriptMix = 0
  BigSize = 8
  SetFees <- SetFeesDef
INIT InitObs
NEXT Stutter
INVARIANTS PreconditionsHeld OrderingConsistent TrimPostcondition TrimAftermath
CHECK_DEADLOCK FALSE
