CONSTANTS
  N = 6
  MaxCount = 3
  MaxSize = 5
  Fees <- FeesSim
  Sizes = {1, 2}
  AccCosts = {0, 1, 100000}
  Budgets = {0}
  QSets <- QSetsDef
  BiasTrim = FALSE
  FinalAt = 0
  ScriptMix = 0
  BigSize = 6
  SetFees <- SetFeesDef
INIT InitObs
NEXT Stutter
INVARIANTS PreconditionsHeld OrderingConsistent TrimPostcondition TrimAftermath
CHECK_DEADLOCK FALSE
