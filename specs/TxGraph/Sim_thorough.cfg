CONSTANTS
  N = 7
  MaxCount = 4
  MaxSize = 7
  Fees <- FeesSim
  Sizes = {1, 2, 3}
  AccCosts = {0, 1, 100000}
  Budgets = {0, 1, 1000000}
  QSets <- QSetsDef
  BiasTrim = TRUE
  FinalAt = 60
  ScriptMix = 30
  BigSize = 8
  SetFees <- SetFeesDef
INIT Init
NEXT Next
VIEW View0
ACTION_CONSTRAINT Emit
CHECK_DEADLOCK FALSE
