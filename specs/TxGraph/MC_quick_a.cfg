CONSTANTS
  N = 3
  MaxCount = 2
  MaxSize = 2
  Fees <- FeesMC1
  Sizes = {1}
  AccCosts = {0}
  Budgets = {0}
  QSets <- QSetsDef
  BiasTrim = FALSE
  FinalAt = 0
  ScriptMix = 0
  BigSize = 1
  SetFees <- FeesMC1
INIT Init
NEXT NextMut
VIEW View0
INVARIANTS TypeOK RefsOK NaiveOK SnapOK OrderingSatisfiable
PROPERTIES StagingOK TrimOK RemoveOK
CHECK_DEADLOCK FALSE
