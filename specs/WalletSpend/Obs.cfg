INIT InitObs
NEXT Stutter
INVARIANTS ObsInputsOK ObsAvailSound ObsRecipientsPaid ObsReductionIsFee ObsChangeToWallet ObsFeeBounds ObsAccepted ObsNoInternalBug ObsBumpRefused ObsBumpInputs ObsBumpOutputs ObsBumpFee ObsBumpReplaces ObsBumpNoInternalBug
CHECK_DEADLOCK FALSE
