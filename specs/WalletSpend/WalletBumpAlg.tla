---- MODULE WalletBumpAlg ----
(***************************************************************************************************************************)
(* TLC decides the fee clause of C56 on feebumper's arithmetic as coded (WalletSpend!BumpAlg) for every combination of a     *)
(* boundary-valued domain: a replacement that passes CheckFeeRate on the size before funding (or uses EstimateFeeRate) pays  *)
(* at least old fee + incremental relay fee x its FINAL size and at least the requested feerate x final size, and never more *)
(* than maxtxfee - also when funding adds inputs (grow), signing shrinks the transaction, or a surplus is dropped to fees.   *)
(***************************************************************************************************************************)
EXTENDS WalletSpend
CONSTANTS OldFees, OldSizes, Grows, Surpluses, RateArgs, Incrs, Requireds, PoolMins, MaxFees
VARIABLES inp, alg
vars == <<inp, alg>>
Init == \E oldfee \in OldFees, sold \in OldSizes, ds \in {-31, 0, 12}, grow \in Grows, shrink \in {0, 1, 2}, surplus \in Surpluses, ratearg \in RateArgs \cup {-1},
           incr \in Incrs, required \in Requireds, poolmin \in PoolMins, maxfee \in MaxFees :
          /\ inp = [oldfee |-> oldfee, sold |-> sold, s0 |-> sold + ds, grow |-> grow, shrink |-> shrink, surplus |-> surplus, ratearg |-> ratearg, incr |-> incr,
                    required |-> required, poolmin |-> poolmin, maxfee |-> maxfee]
          /\ alg = BumpAlg(oldfee, sold, sold + ds, grow, shrink, surplus, ratearg, incr, required, poolmin, maxfee)
Next == UNCHANGED vars
\* Rule 4 of the replacement policy on the final size
Shrunk == inp.ratearg < 0 /\ inp.s0 < inp.sold      \* no feerate named and the supplied outputs make the transaction smaller than the original
PaysIncrement == (alg.ok /\ ~Shrunk) => alg.fee >= inp.oldfee + FeeAt(inp.incr, alg.vsize)
\* NOT an invariant of the code as it is (EstimateFeeRate assumes "the replacement will be at least as large as the original"):
PaysIncrementShrunk == (alg.ok /\ Shrunk) => alg.fee >= inp.oldfee + FeeAt(inp.incr, alg.vsize)
PaysRequested == (alg.ok /\ inp.ratearg >= 0) => alg.fee >= FeeAt(inp.ratearg, alg.vsize)
WithinMax == alg.ok => alg.fee <= inp.maxfee
\* the replacement's feerate is above the original's (what the mempool's feerate-diagram check needs for a lone transaction)
HigherRate == alg.ok => alg.fee * inp.sold > inp.oldfee * alg.vsize
\* NOT an invariant of the code as it is: the wallet compares feerates per vbyte (weights rounded up), the mempool's feerate-diagram
\* check compares exact weights. With w1 / w2 weight units of rounding slack in the original / the replacement, a replacement that had
\* to add inputs (grow > 0) at a feerate just above the original's can have the LOWER feerate per weight unit.
HigherRateWeight == \A w1 \in 0..3, w2 \in 0..3 : alg.ok => alg.fee * (4 * inp.sold - w1) > inp.oldfee * (4 * alg.vsize - w2)
WitnessRefusedLow == ~(~alg.ok /\ inp.ratearg >= 0 /\ FeeAt(inp.ratearg, inp.s0) < inp.oldfee + FeeAt(inp.incr, inp.s0))
WitnessGrown == ~(alg.ok /\ inp.grow > 0 /\ inp.ratearg >= 0)
====
