CONSTANTS
  CoinValues = {3000, 5000, 20001}
  InSizes = {68, 148}
  RecipValues = {600, 2500, 4400, 4999, 5000}
  Rates = {0, 1000, 3333, 10001}
  MinViables = {300, 1000}
  MaxFees = {900, 100000}
  MaxIns = 2
  MaxRecips = 2
INIT Init
NEXT Next
INVARIANTS AlgInputsOK AlgRecipientsPaid AlgReductionIsFee AlgChangeToWallet AlgFeeBounds AlgExactWithChange AlgNoDust
CHECK_DEADLOCK FALSE
