---- MODULE WalletSpend ----
(***************************************************************************************************************************)
(* C41 / C56: what a transaction created (or fee-bumped) by the wallet must look like, as relations over one CALL RECORD.  *)
(*                                                                                                                         *)
(* A call record C describes one call of CreateTransaction / FundTransaction with everything the relation needs:           *)
(*   C.node   = [minrelay, poolmin, incr, dustrate]   the node's relay policy (sat/kvB)                                    *)
(*   C.wallet = [maxfee, minfee, fallback, spendzc]   the wallet's settings                                                *)
(*   C.txs    = [name |-> [depth, pool, cb, replaces, replaced, ins: Seq([mine, tx])]]                                     *)
(*              transactions that carry outputs of the wallet and their unconfirmed ancestors; depth = confirmations in    *)
(*              the active chain (0 = unconfirmed), pool = in the node's mempool; ins only for unconfirmed transactions    *)
(*   C.coins  = Seq([id, tx, v, exists, poolspent, locked])  every output the wallet owns:                                 *)
(*              exists = the active chain's utxo set or a mempool transaction provides it, poolspent = a mempool           *)
(*              transaction spends it, locked = the user locked it                                                         *)
(*   C.recips = Seq([v, sffo, std, dust, spk])        requested payments                                                   *)
(*   C.cc     = [feerate (-1 = none), override, preset: Seq(id), ext: Seq(id), other, unsafe, mindepth, customchange]      *)
(*   C.avail  = Seq(id)                               the wallet's coin list (AvailableCoins) for this coin control        *)
(*   C.res    = [ok, bug, ins: Seq(id), outs: Seq([v, mine, spk]), fee, changepos, vsize, invalue, accept]                 *)
(* The same record shape is produced by the algorithm model below (TLC decides the clauses on a bounded domain,            *)
(* WalletSpendAlg) and by the conformance adapter from calls of the real wallet (WalletSpendObs).                          *)
(* Which coins the wallet picks is NOT predicted: the relation only says which coins it may pick.                          *)
(***************************************************************************************************************************)
EXTENDS Integers, Sequences, FiniteSets, TLC

ToSet(s) == {s[i] : i \in 1..Len(s)}
Max2(a, b) == IF a > b THEN a ELSE b
Min2(a, b) == IF a < b THEN a ELSE b
RECURSIVE SumSeq(_)
SumSeq(s) == IF s = <<>> THEN 0 ELSE Head(s) + SumSeq(Tail(s))
\* C++ integer division truncates towards zero and the remainder takes the sign of the dividend
TruncDiv(a, b) == IF a >= 0 THEN a \div b ELSE -((-a) \div b)
TruncRem(a, b) == a - b * TruncDiv(a, b)
\* CFeeRate::GetFee rounds up
FeeAt(rate, vsize) == (rate * vsize + 999) \div 1000

COINBASE_MATURITY == 100

\* ---------------------------------------------------------------------------------------------------------- spendable coins
RECURSIVE TrustedF(_, _, _)
\* CachedTxIsTrusted: confirmed, or in the mempool with every input an output of ours created by a trusted transaction
TrustedF(C, t, fuel) ==
  IF t \notin DOMAIN C.txs THEN FALSE
  ELSE LET x == C.txs[t] IN
       \/ x.depth > 0
       \/ /\ fuel > 0 /\ x.pool /\ C.wallet.spendzc /\ Len(x.ins) > 0
          /\ \A i \in 1..Len(x.ins) : x.ins[i].mine /\ TrustedF(C, x.ins[i].tx, fuel - 1)
Trusted(C, t) == TrustedF(C, t, 6)
\* "safe": trusted and (if unconfirmed) neither a replacement nor replaced
SafeTx(C, t) == Trusted(C, t) /\ (C.txs[t].depth = 0 => (~C.txs[t].replaces /\ ~C.txs[t].replaced))
\* a coinbase output can be spent by the next block once 100 blocks are on top of it (the wallet itself waits one block longer)
MatureTx(x) == ~x.cb \/ x.depth >= COINBASE_MATURITY
\* the transaction output exists and nobody spends it, as far as chain and mempool say
Unspent(c) == c.exists /\ ~c.poolspent
Coin(C, id) == CHOOSE c \in ToSet(C.coins) : c.id = id
IsCoin(C, id) == \E c \in ToSet(C.coins) : c.id = id
\* a wallet coin the wallet may pick on its own: mature, unspent, not locked, safe per the caller's options
Spendable(C, id) ==
  /\ IsCoin(C, id)
  /\ LET c == Coin(C, id) x == C.txs[c.tx] IN
     /\ Unspent(c) /\ ~c.locked
     /\ (x.depth > 0 \/ x.pool)
     /\ MatureTx(x)
     /\ (C.cc.unsafe \/ SafeTx(C, c.tx))
     /\ x.depth >= C.cc.mindepth
Supplied(C) == ToSet(C.cc.preset) \cup ToSet(C.cc.ext)

\* ---------------------------------------------------------------------------------------------------------- C41 clauses
Ok(C) == C.res.ok
\* inputs are distinct, and each is supplied by the caller or a spendable wallet coin (only if the caller allows other inputs)
InputsOK(C) ==
  Ok(C) => /\ Cardinality(ToSet(C.res.ins)) = Len(C.res.ins)
           /\ Len(C.res.ins) > 0
           /\ \A id \in ToSet(C.res.ins) : id \in Supplied(C) \/ (C.cc.other /\ Spendable(C, id))
\* the coin list the selection draws from contains spendable coins only (so that ANY selection satisfies InputsOK)
AvailSound(C) == \A id \in ToSet(C.avail) : Spendable(C, id)

HasChange(C) == C.res.changepos >= 0
\* recipient k (1-based) sits at output k, shifted by one if the change was inserted at or before it
OutIdx(C, k) == IF HasChange(C) /\ C.res.changepos <= k - 1 THEN k + 1 ELSE k
Shape(C) == /\ Len(C.res.outs) = Len(C.recips) + (IF HasChange(C) THEN 1 ELSE 0)
            /\ (HasChange(C) => C.res.changepos < Len(C.res.outs))
SffoSet(C) == {k \in 1..Len(C.recips) : C.recips[k].sffo}
Reduced(C, k) == C.recips[k].v - C.res.outs[OutIdx(C, k)].v
TotalReduced(C) == SumSeq([k \in 1..Len(C.recips) |-> Reduced(C, k)])
FirstSffo(C) == CHOOSE k \in SffoSet(C) : \A j \in SffoSet(C) : k <= j
\* every recipient gets its script and its amount; the ones that subtract the fee are reduced by equal shares of the total
\* reduction, the first of them also by the indivisible remainder; nobody else is reduced
RecipientsPaid(C) ==
  Ok(C) => /\ Shape(C)
           /\ \A k \in 1..Len(C.recips) :
                /\ C.res.outs[OutIdx(C, k)].spk = C.recips[k].spk
                /\ IF ~C.recips[k].sffo THEN Reduced(C, k) = 0
                   ELSE LET n == Cardinality(SffoSet(C)) R == TotalReduced(C) IN
                        Reduced(C, k) = TruncDiv(R, n) + (IF k = FirstSffo(C) THEN TruncRem(R, n) ELSE 0)
\* what the recipients give up is the fee: never more, and all of it when the surplus went to a change output
\* (without change output the surplus of the inputs stays with the recipients instead of going to the miner)
ReductionIsFee(C) ==
  (Ok(C) /\ Shape(C) /\ SffoSet(C) # {}) => /\ TotalReduced(C) <= C.res.fee
                                           /\ (HasChange(C) => TotalReduced(C) = C.res.fee)
\* change goes to the wallet (or to the address the caller named)
ChangeToWallet(C) ==
  (Ok(C) /\ Shape(C) /\ HasChange(C)) =>
     LET o == C.res.outs[C.res.changepos + 1] IN
     IF C.cc.customchange # "" THEN o.spk = C.cc.customchange ELSE o.mine
\* the feerate the caller asked for; without one the wallet's own: no estimates exist here, so fallback, at least the mempool's
\* and the required minimum
Required(C) == Max2(C.wallet.minfee, C.node.minrelay)
ReqRate(C) == IF C.cc.feerate >= 0 THEN C.cc.feerate
              ELSE Max2(Max2(C.wallet.fallback, C.node.poolmin), Required(C))
\* fee = inputs - outputs, at least feerate x final (signed) size, at most the maximum transaction fee
FeeBounds(C) ==
  Ok(C) => /\ (C.res.invalue >= 0 => C.res.fee = C.res.invalue - SumSeq([i \in 1..Len(C.res.outs) |-> C.res.outs[i].v]))
           /\ C.res.fee >= FeeAt(ReqRate(C), C.res.vsize)
           /\ C.res.fee <= C.wallet.maxfee
\* a coin the caller supplied and that the chain and mempool allow to be spent now
SuppliedUsable(C, id) ==
  \/ id \in ToSet(C.cc.ext)
  \/ /\ IsCoin(C, id)
     /\ LET c == Coin(C, id) x == C.txs[c.tx] IN Unspent(c) /\ (x.depth > 0 \/ x.pool) /\ MatureTx(x)
\* standard recipients and a feerate the node relays => the node's mempool would take the transaction
AcceptPremise(C) ==
  /\ Ok(C)
  /\ \A k \in 1..Len(C.recips) : C.recips[k].std
  /\ ReqRate(C) >= Max2(C.node.minrelay, C.node.poolmin)
  /\ \A id \in ToSet(C.res.ins) : SuppliedUsable(C, id) \/ Spendable(C, id)
Accepted(C) == AcceptPremise(C) => C.res.accept
\* the wallet's own consistency checks ("Internal bug detected") never fire
NoInternalBug(C) == ~C.res.bug

\* ---------------------------------------------------------------------------------------------------------- C56: fee bumping
(* A bump record B describes one call of feebumper::CreateRateBumpTransaction (+ SignTransaction / CommitTransaction):      *)
(*   B.orig = [ins, outs: Seq([v, mine, spk]), changepos, fee, vsize, depth, pool, inputsgone, replaced, walletdesc,        *)
(*             pooldesc, allmine]   the transaction to be replaced: depth = confirmations in the active chain, inputsgone = *)
(*             an input is neither in the utxo set nor provided by the mempool (spent by a confirmed conflict), replaced =  *)
(*             a replacement was committed before, walletdesc / pooldesc = a wallet / mempool transaction spends an output  *)
(*             of it, allmine = every input is an output of the wallet                                                      *)
(*   B.args = [feerate (-1 = none), outputs: Seq([v, spk]) (empty = keep), changeidx (-1 = none), requiremine]              *)
(*   B.res  = [ok, bug, unchanged, newins, newouts, vsize, invalue, oldfee, newfee, accept, committed, poolnew, poolorig]   *)
BOk(B) == B.res.ok
\* the code's preconditions: confirmed or conflicted by the chain, already replaced, descendants, foreign inputs where not allowed
Unbumpable(B) == \/ B.orig.depth # 0 \/ B.orig.inputsgone \/ B.orig.replaced \/ B.orig.walletdesc \/ B.orig.pooldesc
                 \/ (B.args.requiremine /\ ~B.orig.allmine)
\* such a transaction is refused; a refusal never changes the wallet (or the mempool)
BumpRefused(B) == /\ (Unbumpable(B) => ~BOk(B))
                  /\ (~BOk(B) => B.res.unchanged)
\* the replacement spends every input of the original (and no input twice)
BumpInputs(B) == BOk(B) => /\ ToSet(B.orig.ins) \subseteq ToSet(B.res.newins)
                           /\ Cardinality(ToSet(B.res.newins)) = Len(B.res.newins)
\* the outputs that must reappear unchanged: the supplied ones, else the original's except its change (or the designated output)
BChangeIdx(B) == IF B.args.changeidx >= 0 THEN B.args.changeidx ELSE B.orig.changepos
Pay(o) == <<o.v, o.spk>>
BRequired(B) == IF Len(B.args.outputs) > 0 THEN [i \in 1..Len(B.args.outputs) |-> Pay(B.args.outputs[i])]
                ELSE LET idx == {i \in 1..Len(B.orig.outs) : i # BChangeIdx(B) + 1} IN
                     [k \in 1..Cardinality(idx) |-> Pay(B.orig.outs[CHOOSE i \in idx : Cardinality({j \in idx : j < i}) = k - 1])]
CountIn(s, x) == Cardinality({i \in 1..Len(s) : s[i] = x})
BNewPays(B) == [i \in 1..Len(B.res.newouts) |-> Pay(B.res.newouts[i])]
\* scripts to which the remainder may go: the wallet's own, or the output the caller designated as change
BChangeSpks(B) == IF BChangeIdx(B) >= 0 /\ BChangeIdx(B) < Len(B.orig.outs) THEN {B.orig.outs[BChangeIdx(B) + 1].spk} ELSE {}
BumpOutputs(B) ==
  BOk(B) => LET req == BRequired(B) new == BNewPays(B) IN
            /\ \A x \in ToSet(req) : CountIn(new, x) >= CountIn(req, x)
            /\ \A i \in 1..Len(new) : \/ CountIn(req, new[i]) >= CountIn(new, new[i])         \* a kept payment
                                      \/ B.res.newouts[i].mine \/ B.res.newouts[i].spk \in BChangeSpks(B)
BNewFee(B) == B.res.invalue - SumSeq([i \in 1..Len(B.res.newouts) |-> B.res.newouts[i].v])
\* pays the original's fee plus the incremental relay fee for its own size, at least the requested feerate, at most maxtxfee
BumpFee(B) ==
  BOk(B) => /\ B.res.invalue >= 0 /\ B.orig.fee >= 0
            /\ BNewFee(B) >= B.orig.fee + FeeAt(B.node.incr, B.res.vsize)
            /\ (B.args.feerate >= 0 => BNewFee(B) >= FeeAt(B.args.feerate, B.res.vsize))
            /\ BNewFee(B) <= B.node.wallet.maxfee
            /\ B.res.oldfee = B.orig.fee /\ B.res.newfee = BNewFee(B)
\* the node's mempool takes it as a replacement of the original (which therefore has to be there: the wallet also bumps transactions
\* that never made it into the mempool, and then other conflicts decide): test-accept says yes, and once committed and submitted the
\* replacement is in the mempool and the original is gone
BumpReplaces(B) ==
  (BOk(B) /\ B.orig.pool) => /\ B.res.accept
                             /\ (B.res.committed => (B.res.poolnew /\ ~B.res.poolorig))
BumpNoInternalBug(B) == ~B.res.bug

(* feebumper's fee arithmetic as coded: CheckFeeRate on the size BEFORE inputs are added (s0) when the caller names a        *)
(* feerate, EstimateFeeRate otherwise; then CreateTransaction at that feerate on the final estimated size s0 + grow; the     *)
(* signed transaction may be smaller (shrink); without change output a surplus goes to the fee.                              *)
BumpAlg(oldfee, sold, s0, grow, shrink, surplus, ratearg, incr, required, poolmin, maxfee) ==
  LET walletincr == 5000
      refuse1 == ratearg >= 0 /\ (\/ ratearg < poolmin
                                  \/ FeeAt(ratearg, s0) < oldfee + FeeAt(incr, s0)
                                  \/ FeeAt(ratearg, s0) < FeeAt(required, s0)
                                  \/ FeeAt(ratearg, s0) > maxfee)
      rate == IF ratearg >= 0 THEN ratearg
              ELSE Max2((oldfee * 1000) \div sold + 1 + Max2(incr, walletincr), Max2(required, poolmin))
      fee == FeeAt(rate, s0 + grow) + surplus
      refuse2 == fee > maxfee
  IN [ok |-> ~refuse1 /\ ~refuse2, fee |-> fee, vsize |-> s0 + grow - shrink, rate |-> rate]

\* ---------------------------------------------------------------------------------------------------------- the algorithm
(* CreateTransactionInternal after coin selection, as coded (src/wallet/spend.cpp), on abstract sizes.                     *)
(*   ins: Seq([v, sz])  selected coins (value, estimated input size), recips: Seq([v, sffo, dust]), rate, nis = size of    *)
(*   everything that is not an input or the change, chsz = size of the change output, minviable = smallest change worth    *)
(*   creating, maxfee, shrink = how many vbytes the signed transaction is smaller than the estimate                        *)
(* Coin selection guarantees: with subtract-fee the selected VALUE covers the recipients, otherwise the selected           *)
(* EFFECTIVE value (value minus the fee for the input) covers recipients + fee for nis.                                    *)
AlgSffo(recips) == \E k \in 1..Len(recips) : recips[k].sffo
AlgInValue(ins) == SumSeq([i \in 1..Len(ins) |-> ins[i].v])
AlgEffValue(ins, rate) == SumSeq([i \in 1..Len(ins) |-> ins[i].v - FeeAt(rate, ins[i].sz)])
AlgRSum(recips) == SumSeq([k \in 1..Len(recips) |-> recips[k].v])
AlgTarget(recips, rate, nis) == AlgRSum(recips) + (IF AlgSffo(recips) THEN 0 ELSE FeeAt(rate, nis))
AlgSelectionOK(ins, recips, rate, nis) ==
  IF AlgSffo(recips) THEN AlgInValue(ins) >= AlgTarget(recips, rate, nis)
  ELSE AlgEffValue(ins, rate) >= AlgTarget(recips, rate, nis)
Alg(ins, recips, rate, nis, chsz, minviable, maxfee, shrink) ==
  LET sffo == AlgSffo(recips)
      inv == AlgInValue(ins)
      rsum == AlgRSum(recips)
      nsf == Cardinality({k \in 1..Len(recips) : recips[k].sffo})
      first == IF sffo THEN CHOOSE k \in 1..Len(recips) : recips[k].sffo /\ \A j \in 1..k - 1 : ~recips[j].sffo ELSE 0
      \* SelectionResult::GetChange
      change0 == IF sffo THEN inv - AlgTarget(recips, rate, nis)
                 ELSE AlgEffValue(ins, rate) - AlgTarget(recips, rate, nis) - FeeAt(rate, chsz)
      change1 == IF change0 < minviable THEN 0 ELSE change0
      haschange == change1 > 0
      nbytes == nis + SumSeq([i \in 1..Len(ins) |-> ins[i].sz]) + (IF haschange THEN chsz ELSE 0)
      needed == FeeAt(rate, nbytes)
      cur0 == inv - rsum - change1
      \* surplus over the needed fee goes back into the change output
      change2 == IF haschange /\ needed < cur0 THEN change1 + (cur0 - needed) ELSE change1
      cur1 == inv - rsum - change2
      toreduce == IF sffo THEN needed - cur1 ELSE 0
      paid == [k \in 1..Len(recips) |->
                 recips[k].v - (IF recips[k].sffo THEN TruncDiv(toreduce, nsf) + (IF k = first THEN TruncRem(toreduce, nsf) ELSE 0) ELSE 0)]
      cur2 == inv - SumSeq(paid) - change2
      fail == \/ cur0 < 0
              \/ \E k \in 1..Len(recips) : recips[k].sffo /\ paid[k] < recips[k].dust
              \/ needed > cur2
              \/ cur2 > maxfee
  IN [ok |-> ~fail, paid |-> paid, change |-> change2, haschange |-> haschange, fee |-> cur2, vsize |-> nbytes - shrink,
      estsize |-> nbytes, invalue |-> inv]
====
