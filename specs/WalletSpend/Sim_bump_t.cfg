CONSTANTS
  MaxCoins = 6
  MaxSteps = 14
  BumpOn = TRUE
INIT Init
NEXT Next
VIEW View
ACTION_CONSTRAINT Emit
INVARIANTS TypeOK PresetsExist BumpTargetsExist
CHECK_DEADLOCK FALSE
