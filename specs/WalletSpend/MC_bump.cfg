CONSTANTS
  OldFees = {0, 141, 142, 1410, 2263}
  OldSizes = {141, 226}
  Grows = {0, 68, 148}
  Surpluses = {0, 299}
  RateArgs = {0, 100, 999, 1000, 1100, 1101, 1707, 10100, 10101, 11000, 16101}
  Incrs = {100, 1000}
  Requireds = {100, 1000}
  PoolMins = {0, 1200}
  MaxFees = {3000, 10000000}
INIT Init
NEXT Next
INVARIANTS PaysIncrement PaysRequested WithinMax HigherRate
CHECK_DEADLOCK FALSE
