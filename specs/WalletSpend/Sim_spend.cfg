CONSTANTS
  MaxCoins = 7
  MaxSteps = 8
  BumpOn = FALSE
INIT Init
NEXT Next
VIEW View
ACTION_CONSTRAINT Emit
INVARIANTS TypeOK PresetsExist
CHECK_DEADLOCK FALSE
