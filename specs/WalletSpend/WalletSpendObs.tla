---- MODULE WalletSpendObs ----
(***************************************************************************************************************************)
(* Engine E3 for C41 / C56: every line of the file named by env OBS is one call of the REAL wallet as logged by the        *)
(* adapter (harness/adapters/walletnode.cpp): arguments, what the node knows about the wallet's outputs, the wallet's      *)
(* coin list, and the result. TLC evaluates the relation of WalletSpend on each of them (one initial state per line,       *)
(* lastAct = <<"observed", idx>> names the line in a counterexample).                                                      *)
(***************************************************************************************************************************)
EXTENDS WalletSpend, Json, IOUtils
ObsLines == ndJsonDeserialize(IOEnv.OBS)
VARIABLES idx, lastAct
InitObs == idx \in 1..Len(ObsLines) /\ lastAct = <<"observed", idx>>
Stutter == UNCHANGED <<idx, lastAct>>
L == ObsLines[idx]
IsCreate == L.e = "create"
\* the adapter's line -> the call record of WalletSpend
Call == [node |-> L.node, wallet |-> L.node.wallet, txs |-> L.facts.txs, coins |-> L.facts.coins,
         recips |-> L.args.recips, cc |-> L.args.cc, avail |-> L.avail,
         res |-> IF L.res.ok
                 THEN [ok |-> TRUE, bug |-> FALSE, ins |-> L.res.ins, outs |-> L.res.outs, fee |-> L.res.fee, changepos |-> L.res.changepos,
                       vsize |-> L.res.vsize, invalue |-> L.res.invalue, accept |-> L.res.accept.ok]
                 ELSE [ok |-> FALSE, bug |-> L.res.bug, ins |-> <<>>, outs |-> <<>>, fee |-> 0, changepos |-> -1, vsize |-> 0, invalue |-> 0, accept |-> FALSE]]
ObsInputsOK == IsCreate => InputsOK(Call)
ObsAvailSound == IsCreate => AvailSound(Call)
ObsRecipientsPaid == IsCreate => RecipientsPaid(Call)
ObsReductionIsFee == IsCreate => ReductionIsFee(Call)
ObsChangeToWallet == IsCreate => ChangeToWallet(Call)
ObsFeeBounds == IsCreate => FeeBounds(Call)
ObsAccepted == IsCreate => Accepted(Call)
ObsNoInternalBug == IsCreate => NoInternalBug(Call)
\* ---- C56: the adapter's bump line -> the bump record of WalletSpend (skipped calls name no transaction and are ignored)
IsBump == L.e = "bump" /\ "orig" \in DOMAIN L
Bump == [node |-> L.node, orig |-> L.orig, args |-> L.args,
         res |-> IF L.res.ok
                 THEN [ok |-> TRUE, bug |-> FALSE, unchanged |-> FALSE, newins |-> L.res.new.ins, newouts |-> L.res.new.outs, vsize |-> L.res.new.vsize,
                       invalue |-> L.res.new.invalue, oldfee |-> L.res.oldfee, newfee |-> L.res.newfee, accept |-> L.res.accept.ok,
                       committed |-> L.res.committed, poolnew |-> (IF L.res.committed THEN L.res.poolnew ELSE FALSE),
                       poolorig |-> (IF L.res.committed THEN L.res.poolorig ELSE FALSE)]
                 ELSE [ok |-> FALSE, bug |-> L.res.bug, unchanged |-> L.res.unchanged, newins |-> <<>>, newouts |-> <<>>, vsize |-> 0, invalue |-> 0,
                       oldfee |-> 0, newfee |-> 0, accept |-> FALSE, committed |-> FALSE, poolnew |-> FALSE, poolorig |-> FALSE]]
ObsBumpRefused == IsBump => BumpRefused(Bump)
ObsBumpInputs == IsBump => BumpInputs(Bump)
ObsBumpOutputs == IsBump => BumpOutputs(Bump)
ObsBumpFee == IsBump => BumpFee(Bump)
ObsBumpReplaces == IsBump => BumpReplaces(Bump)
ObsBumpNoInternalBug == IsBump => BumpNoInternalBug(Bump)
====
