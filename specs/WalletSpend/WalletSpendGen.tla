---- MODULE WalletSpendGen ----
(***************************************************************************************************************************)
(* The small wallet model whose simulated behaviours drive the real wallet (C41, C56).  A behaviour first fixes the        *)
(* wallet's settings and builds its coin table (output type, how the coin came about, value class, locked), then issues    *)
(* calls: lock / unlock, mine, create (recipient lists with subtract-fee flags and dust-adjacent amounts, feerates, coin   *)
(* control), bump, and "the recipient spends his output" (gives a wallet transaction a descendant in the mempool).         *)
(* The model knows which calls make sense (presets name existing coins, a bump names a committed transaction); what the    *)
(* real wallet answers is judged by the relation of WalletSpend on the logged call, not predicted here - in particular     *)
(* not which coins it picks.  Argument values are drawn with RandomElement, so one simulated step = one call.              *)
(***************************************************************************************************************************)
EXTENDS Integers, Sequences, FiniteSets, TLC
CONSTANTS MaxCoins, MaxSteps, BumpOn
VARIABLES phase, wopts, coins, n, ncommit, lastAct, lastRes
vars == <<phase, wopts, coins, n, ncommit, lastAct, lastRes>>

Types == {"legacy", "p2sh", "bech32", "bech32m"}
Kinds == {"cbm", "cb100", "cb99", "cb1", "conf6", "conf1", "uo", "us"}
\* confirmed payments are the bulk of a wallet; the others are what the property is about
KindBag == <<"conf6", "conf6", "conf1", "conf1", "conf6", "cbm", "cb100", "cb99", "cb1", "uo", "us", "us">>
VClasses == {"tiny", "small", "mid", "large", "huge"}
VBag == <<"small", "mid", "mid", "large", "large", "huge", "tiny">>
CoinIds == {"c" \o ToString(i) : i \in 1..MaxCoins}
Id(i) == "c" \o ToString(i)
Pick(s) == s[RandomElement(1..Len(s))]

RecipKinds == <<"ext_bech32", "ext_bech32", "ext_legacy", "ext_p2sh", "ext_p2wsh", "ext_bech32m", "self_bech32", "self_legacy", "self_bech32m",
                "faucet", "faucet", "nulldata", "nonstd">>
Rates == <<-1, -1, 0, 50, 100, 1000, 1001, 3333, 10000, 25000, 200000>>
\* amounts: a percentage of the wallet's funds (split over the recipients), dust threshold + d, absolute, the whole preset value - d
PlainAmts == << <<"pct", 5>>, <<"pct", 30>>, <<"pct", 60>>, <<"pct", 95>>, <<"pct", 120>>, <<"dust", -1>>, <<"dust", 0>>, <<"dust", 1>>,
                <<"abs", 20000>>, <<"abs", 700>> >>
SweepAmts == << <<"preset", 0>>, <<"preset", 0>>, <<"preset", 123>>, <<"preset", 300>>, <<"preset", 700>>, <<"preset", 2500>>, <<"preset", 40000>> >>

Recip(amts, sffobag) == [to |-> Pick(RecipKinds), amt |-> Pick(amts), sffo |-> Pick(sffobag)]
Recips(amts, sffobag) == LET k == Pick(<<1, 1, 2, 2, 3>>) IN [i \in 1..k |-> Recip(amts, sffobag)]
SomeCoins(k) == IF coins = <<>> THEN <<>> ELSE [i \in 1..k |-> Id(RandomElement(1..Len(coins)))]
Dedup(s) == IF Len(s) = 2 /\ s[1] = s[2] THEN <<s[1]>> ELSE s

\* templates of create calls
Plain == [recips |-> Recips(PlainAmts, <<FALSE, FALSE, TRUE>>), feerate |-> Pick(Rates), override |-> Pick(<<FALSE, FALSE, TRUE>>),
          preset |-> Dedup(SomeCoins(Pick(<<0, 0, 0, 1, 2>>))), ext |-> 0, other |-> TRUE, unsafe |-> Pick(<<FALSE, FALSE, TRUE>>),
          mindepth |-> Pick(<<0, 0, 0, 1>>), changetype |-> Pick(<<"", "", "legacy", "p2sh", "bech32", "bech32m">>),
          changedest |-> Pick(<<FALSE, FALSE, FALSE, TRUE>>), changepos |-> Pick(<<-1, -1, -1, 0, 1, 5>>), via |-> "create",
          commit |-> Pick(<<FALSE, TRUE, TRUE>>), lockunspents |-> FALSE]
\* spend exactly the named coins: whole value (minus a little) to the recipients, typically with the fee subtracted
Sweep == [recips |-> Recips(SweepAmts, <<TRUE, TRUE, TRUE, FALSE>>), feerate |-> Pick(<<1000, 1001, 3333, 10000, 25000, -1>>), override |-> Pick(<<FALSE, TRUE>>),
          preset |-> Dedup(SomeCoins(Pick(<<1, 1, 2>>))), ext |-> 0, other |-> Pick(<<FALSE, FALSE, TRUE>>), unsafe |-> Pick(<<FALSE, TRUE>>),
          mindepth |-> 0, changetype |-> Pick(<<"", "legacy", "bech32m">>), changedest |-> FALSE, changepos |-> -1, via |-> Pick(<<"create", "create", "fund">>),
          commit |-> Pick(<<FALSE, TRUE>>), lockunspents |-> FALSE]
\* FundTransaction with inputs the caller supplies, among them outputs that are not the wallet's
Fund == [recips |-> Recips(PlainAmts, <<FALSE, FALSE, TRUE>>), feerate |-> Pick(<<-1, 1000, 3333, 25000>>), override |-> FALSE,
         preset |-> Dedup(SomeCoins(Pick(<<0, 1, 2>>))), ext |-> Pick(<<0, 1, 1>>), other |-> Pick(<<TRUE, TRUE, FALSE>>), unsafe |-> Pick(<<FALSE, TRUE>>),
         mindepth |-> 0, changetype |-> "", changedest |-> FALSE, changepos |-> Pick(<<-1, 0>>), via |-> "fund",
         commit |-> Pick(<<FALSE, TRUE>>), lockunspents |-> Pick(<<FALSE, TRUE>>)]
\* an ordinary payment that will normally succeed and be committed: what fee bumps (C56) work on
Simple == [recips |-> [i \in 1..Pick(<<1, 1, 2>>) |-> [to |-> Pick(<<"ext_bech32", "ext_legacy", "faucet", "faucet", "self_bech32", "ext_bech32m">>), amt |-> Pick(<< <<"pct", 5>>, <<"pct", 20>>, <<"pct", 40>>, <<"pct", 70>>, <<"pct", 70>>, <<"abs", 20000>> >>), sffo |-> Pick(<<FALSE, FALSE, FALSE, TRUE>>)]],
           feerate |-> Pick(<<-1, 1000, 3333, 10000, 25000, 60000>>), override |-> FALSE, preset |-> <<>>, ext |-> 0, other |-> TRUE, unsafe |-> FALSE,
           mindepth |-> 0, changetype |-> Pick(<<"", "", "legacy", "bech32m">>), changedest |-> FALSE, changepos |-> -1, via |-> "create", commit |-> TRUE, lockunspents |-> FALSE]
\* a payment with an input of somebody else (only ever bumped with require_mine off)
Foreign == [recips |-> <<[to |-> Pick(<<"ext_bech32", "faucet">>), amt |-> Pick(<< <<"abs", 20000>>, <<"abs", 700000>> >>), sffo |-> FALSE]>>, feerate |-> Pick(<<1000, 3333, 10000>>),
            override |-> FALSE, preset |-> <<>>, ext |-> 1, other |-> TRUE, unsafe |-> FALSE, mindepth |-> 0, changetype |-> "", changedest |-> FALSE, changepos |-> -1,
            via |-> "fund", commit |-> TRUE, lockunspents |-> FALSE]
CreateArgs == LET t == IF BumpOn THEN Pick(<<"simple", "simple", "simple", "simple", "foreign", "plain", "sweep", "fund">>) ELSE Pick(<<"plain", "plain", "plain", "sweep", "sweep", "fund">>) IN
              IF t = "plain" THEN Plain ELSE IF t = "sweep" THEN Sweep ELSE IF t = "simple" THEN Simple ELSE IF t = "foreign" THEN Foreign ELSE Fund
\* fee bumps (C56): feerate none / relative to the original's (sat/kvB above it) / absolute; new outputs; recycle the change
\* mostly the latest committed transaction (the earlier ones tend to be replaced or mined by then)
BumpArgs == [tx |-> Pick(<<ncommit, ncommit, RandomElement(1..ncommit)>>),
             feerate |-> Pick(<< <<"none", 0>>, <<"none", 0>>, <<"rel", 50>>, <<"rel", 50>>, <<"rel", 99>>, <<"rel", 99>>, <<"rel", 101>>, <<"rel", 150>>, <<"rel", 2000>>, <<"rel", 20000>>, <<"abs", 100>>, <<"abs", 5000000>> >>),
             outputs |-> Pick(<<"", "", "", "", "half", "other">>), changeidx |-> Pick(<<FALSE, FALSE, TRUE>>), requiremine |-> Pick(<<TRUE, TRUE, FALSE>>),
             commit |-> Pick(<<TRUE, TRUE, FALSE>>)]

Init == /\ phase = "wallet" /\ coins = <<>> /\ n = 0 /\ ncommit = 0
        /\ wopts = [maxfee |-> 10000000, fallback |-> 20000, spendzc |-> TRUE]
        /\ lastAct = <<"init">> /\ lastRes = "none"
SetWallet == /\ phase = "wallet"
             /\ wopts' = [maxfee |-> Pick(<<10000000, 10000000, 10000000, 4000>>), fallback |-> Pick(<<20000, 20000, 1000, 0>>), spendzc |-> Pick(<<TRUE, TRUE, TRUE, FALSE>>)]
             /\ phase' = "setup" /\ lastAct' = <<"wallet", wopts'>> /\ UNCHANGED <<coins, n, ncommit, lastRes>>
AddCoin == /\ phase = "setup" /\ Len(coins) < MaxCoins
           /\ LET c == [id |-> Id(Len(coins) + 1), type |-> RandomElement(Types), kind |-> Pick(KindBag), vc |-> Pick(VBag), locked |-> Pick(<<FALSE, FALSE, FALSE, TRUE>>)] IN
              /\ coins' = Append(coins, c) /\ lastAct' = <<"coin", c>>
           /\ UNCHANGED <<phase, wopts, n, ncommit, lastRes>>
Start == /\ phase = "setup" /\ Len(coins) >= 3
         /\ phase' = "run" /\ lastAct' = <<"start">> /\ UNCHANGED <<wopts, coins, n, ncommit, lastRes>>
Running == phase = "run" /\ n < MaxSteps
Lock == /\ Running /\ LET i == RandomElement(1..Len(coins)) l == ~coins[i].locked IN
                      /\ coins' = [coins EXCEPT ![i].locked = l] /\ lastAct' = <<(IF l THEN "lock" ELSE "unlock"), Id(i)>>
        /\ n' = n + 1 /\ UNCHANGED <<phase, wopts, ncommit, lastRes>>
Mine == /\ Running /\ lastAct' = <<"mine", Pick(<<1, 1, 2>>)>> /\ n' = n + 1 /\ UNCHANGED <<phase, wopts, coins, ncommit, lastRes>>
Create == /\ Running
          /\ LET a == CreateArgs IN /\ lastAct' = <<"create", a>> /\ ncommit' = IF a.commit THEN ncommit + 1 ELSE ncommit
          /\ n' = n + 1 /\ UNCHANGED <<phase, wopts, coins, lastRes>>
Bump == /\ Running /\ BumpOn /\ ncommit > 0
        /\ lastAct' = <<"bump", BumpArgs>> /\ n' = n + 1 /\ UNCHANGED <<phase, wopts, coins, ncommit, lastRes>>
\* the recipient (the others' key) spends what transaction k paid him, unconfirmed: a descendant that is not the wallet's
SpendRecipient == /\ Running /\ BumpOn /\ ncommit > 0
                  /\ lastAct' = <<"respend", Pick(<<ncommit, ncommit, RandomElement(1..ncommit)>>)>> /\ n' = n + 1 /\ UNCHANGED <<phase, wopts, coins, ncommit, lastRes>>
\* the wallet itself spends the change of transaction k: a descendant in the wallet
SpendChange == /\ Running /\ BumpOn /\ ncommit > 0
               /\ lastAct' = <<"childof", Pick(<<ncommit, RandomElement(1..ncommit)>>), Pick(<<TRUE, FALSE>>)>> /\ n' = n + 1 /\ UNCHANGED <<phase, wopts, coins, ncommit, lastRes>>
Next == SetWallet \/ AddCoin \/ AddCoin \/ Start \/ Lock \/ Mine \/ Create \/ Create \/ Create \/ Bump \/ Bump \/ Bump \/ Bump \/ Bump \/ Bump \/ SpendRecipient \/ SpendChange

\* what the driver reads: the action; the state only tells the transitions apart
View == <<phase, wopts, coins, n, ncommit>>
Proj == [phase |-> phase, n |-> n, nc |-> Len(coins), act |-> lastAct]
VF == INSTANCE VF
Emit == VF!VFEdge(Proj, lastAct', lastRes', Proj')
\* sanity of the generator itself
TypeOK == /\ phase \in {"wallet", "setup", "run"} /\ Len(coins) <= MaxCoins /\ n <= MaxSteps
          /\ \A i \in 1..Len(coins) : coins[i].id = Id(i) /\ coins[i].type \in Types /\ coins[i].kind \in Kinds /\ coins[i].vc \in VClasses
PresetsExist == lastAct[1] = "create" => \A i \in 1..Len(lastAct[2].preset) : lastAct[2].preset[i] \in {coins[j].id : j \in 1..Len(coins)}
BumpTargetsExist == /\ (lastAct[1] = "bump" => lastAct[2].tx \in 1..ncommit)
                    /\ (lastAct[1] \in {"respend", "childof"} => lastAct[2] \in 1..ncommit)
====
