---- MODULE WalletSpendAlg ----
(***************************************************************************************************************************)
(* TLC decides the arithmetic clauses of C41 on the algorithm model (WalletSpend!Alg = CreateTransactionInternal after     *)
(* coin selection, as coded) for EVERY selection, recipient list, feerate and size of a boundary-valued domain:            *)
(* recipients paid (equal shares + remainder to the first, truncating division also for a negative reduction), reduction   *)
(* = fee when there is change and <= fee otherwise, fee = inputs - outputs, feerate x final size <= fee <= maxfee.         *)
(* One initial state per input; Next stutters.                                                                             *)
(***************************************************************************************************************************)
EXTENDS WalletSpend
CONSTANTS CoinValues, InSizes, RecipValues, Rates, MinViables, MaxFees, MaxIns, MaxRecips
VARIABLES call, alg
vars == <<call, alg>>
ChSz == 31
Dust == 294
SeqsUpTo(S, n) == UNION {[1..k -> S] : k \in 1..n}
InSpecs == [v : CoinValues, sz : InSizes]
RecipSpecs == [v : RecipValues, sffo : BOOLEAN, dust : {Dust}]
\* the call record of an algorithm result; the change output is inserted at position cp (0-based)
MkCall(ins, recips, rate, maxfee, r, cp) ==
  LET n == Len(recips)
      outs0 == [k \in 1..n |-> [v |-> r.paid[k], mine |-> FALSE, spk |-> "r" \o ToString(k)]]
      chg == [v |-> r.change, mine |-> TRUE, spk |-> "chg"]
      outs == IF r.haschange THEN [i \in 1..n + 1 |-> IF i <= cp THEN outs0[i] ELSE IF i = cp + 1 THEN chg ELSE outs0[i - 1]] ELSE outs0
  IN [node |-> [minrelay |-> 100, poolmin |-> 0, incr |-> 100, dustrate |-> 3000],
      wallet |-> [maxfee |-> maxfee, minfee |-> 0, fallback |-> 0, spendzc |-> TRUE],
      txs |-> [t \in {"t" \o ToString(i) : i \in 1..Len(ins)} |-> [depth |-> 6, pool |-> FALSE, cb |-> FALSE, replaces |-> FALSE, replaced |-> FALSE, ins |-> <<>>]],
      coins |-> [i \in 1..Len(ins) |-> [id |-> "t" \o ToString(i) \o ":0", tx |-> "t" \o ToString(i), v |-> ins[i].v, exists |-> TRUE, poolspent |-> FALSE, locked |-> FALSE]],
      recips |-> [k \in 1..n |-> [v |-> recips[k].v, sffo |-> recips[k].sffo, std |-> TRUE, dust |-> recips[k].dust, spk |-> "r" \o ToString(k)]],
      cc |-> [feerate |-> rate, override |-> TRUE, preset |-> <<>>, ext |-> <<>>, other |-> TRUE, unsafe |-> FALSE, mindepth |-> 0, customchange |-> ""],
      avail |-> [i \in 1..Len(ins) |-> "t" \o ToString(i) \o ":0"],
      res |-> [ok |-> r.ok, bug |-> FALSE, ins |-> [i \in 1..Len(ins) |-> "t" \o ToString(i) \o ":0"], outs |-> outs, fee |-> r.fee,
               changepos |-> IF r.haschange THEN cp ELSE -1, vsize |-> r.vsize, invalue |-> r.invalue, accept |-> TRUE]]
Init == \E ins \in SeqsUpTo(InSpecs, MaxIns), recips \in SeqsUpTo(RecipSpecs, MaxRecips), rate \in Rates, mv \in MinViables, mf \in MaxFees,
           shrink \in {0, 1}, cp \in 0..MaxRecips :
          LET nis == 10 + 31 * Len(recips) IN
          /\ cp <= Len(recips)
          /\ AlgSelectionOK(ins, recips, rate, nis)
          /\ alg = Alg(ins, recips, rate, nis, ChSz, mv, mf, shrink)
          /\ call = MkCall(ins, recips, rate, mf, alg, cp)
Next == UNCHANGED vars
\* the clauses (WalletSpend) on the algorithm's result
AlgInputsOK == InputsOK(call)
AlgRecipientsPaid == RecipientsPaid(call)
AlgReductionIsFee == ReductionIsFee(call)
AlgChangeToWallet == ChangeToWallet(call)
AlgFeeBounds == FeeBounds(call)
\* with a change output the fee is exactly what the feerate asks for the estimated size: nothing is overpaid
AlgExactWithChange == (alg.ok /\ alg.haschange) => alg.fee = FeeAt(call.cc.feerate, alg.estsize)
\* subtract-fee recipients never receive less than dust
AlgNoDust == alg.ok => \A k \in 1..Len(call.recips) : call.recips[k].sffo => call.res.outs[OutIdx(call, k)].v >= call.recips[k].dust
\* vacuity witnesses (negated: TLC must find a counterexample when asked, see props/C41.py)
WitnessNegativeReduction == ~(alg.ok /\ SffoSet(call) # {} /\ TotalReduced(call) < 0)
WitnessRemainder == ~(alg.ok /\ Cardinality(SffoSet(call)) = 2 /\ TotalReduced(call) % 2 = 1)
WitnessMaxFee == ~(~alg.ok /\ alg.fee > call.wallet.maxfee)
====
