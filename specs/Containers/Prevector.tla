---- MODULE Prevector ----
(***************************************************************************)
(* prevector<N, T> (src/prevector.h): a vector that keeps up to N elements *)
(* inside the object ("direct") and switches to a malloc'ed buffer         *)
(* ("indirect") above that.  `a` is the representation as coded: the       *)
(* buffer (`mem`, Cap(a) slots, Junk = uninitialised), `size` and the      *)
(* direct flag; every action is one public call, with change_capacity /    *)
(* memmove / fill written as the header does them.  `model` is the plain   *)
(* sequence (std::vector semantics) property C61 compares with.            *)
(* Copy / move / swap take a temporary second operand built by a           *)
(* constructor inside the action (as src/test/fuzz does).                  *)
(***************************************************************************)
EXTENDS Integers, Sequences, FiniteSets, TLC, VF
CONSTANTS N,            \* inline capacity (template parameter)
          TSize,        \* sizeof(T), only for allocated_memory()
          Vals,         \* values written by the caller; T{} = 0 comes from resize()
          MaxLen,       \* bound on size()
          Counts,       \* counts for insert(pos, count, value)
          RangeLens,    \* lengths of the source ranges of insert/assign(first, last)
          Reserves,     \* arguments of reserve()
          TmpLens, TmpReserves   \* shape of the temporary operand
VARIABLES a, model, lastAct, lastRes
vars == <<a, model, lastAct, lastRes>>

Junk == -1
V1 == CHOOSE v \in Vals : \A w \in Vals : v <= w
V2 == IF Cardinality(Vals) > 1 THEN CHOOSE v \in Vals : v # V1 ELSE 0
Pat(k) == IF k = 0 THEN <<>> ELSE [i \in 1..k |-> IF i % 2 = 1 THEN V1 ELSE V2]
Rep(n, x) == IF n = 0 THEN <<>> ELSE [k \in 1..n |-> x]
Ranges == {Pat(k) : k \in RangeLens} \cup {Rep(k, V2) : k \in RangeLens \ {0}}

\* ---------------------------------------------------------------- representation as coded
Cap(v) == Len(v.mem)
Elems(v) == SubSeq(v.mem, 1, v.size)
Empty == [mem |-> [k \in 1..N |-> Junk], size |-> 0, direct |-> TRUE]
\* slots at and above size are unobservable: forget what they hold
Norm(v) == [v EXCEPT !.mem = [k \in 1..Len(v.mem) |-> IF k <= v.size THEN v.mem[k] ELSE Junk]]

\* change_capacity(c): c <= N moves an indirect vector back into the object (memcpy of size() elements, needs size <= N),
\* c > N mallocs / reallocs exactly c slots
ChangeCap(v, c) ==
  IF c <= N
  THEN IF v.direct THEN v
       ELSE [mem |-> [k \in 1..N |-> IF k <= v.size THEN v.mem[k] ELSE Junk], size |-> v.size, direct |-> TRUE]
  ELSE [mem |-> [k \in 1..c |-> IF k <= Len(v.mem) THEN v.mem[k] ELSE Junk], size |-> v.size, direct |-> FALSE]
\* the growth rule of insert / emplace_back
Grow(v, ns) == IF Cap(v) < ns THEN ChangeCap(v, ns + (ns \div 2)) ELSE v

\* memmove(dst, src, n) / fill on 1-based slot numbers
Memmove(m, dst, src, n) == [k \in 1..Len(m) |-> IF k >= dst /\ k < dst + n THEN m[k - dst + src] ELSE m[k]]
FillN(m, dst, n, x) == [k \in 1..Len(m) |-> IF k >= dst /\ k < dst + n THEN x ELSE m[k]]
FillSeq(m, dst, s) == [k \in 1..Len(m) |-> IF k >= dst /\ k < dst + Len(s) THEN s[k - dst + 1] ELSE m[k]]

\* insert(pos, ...): grow, memmove(ptr + count, ptr, size - p), _size += count, fill
Gap(v, p, cnt) == LET w == Grow(v, v.size + cnt)
                  IN [w EXCEPT !.mem = Memmove(w.mem, p + cnt + 1, p + 1, v.size - p), !.size = v.size + cnt]
InsertN(v, p, cnt, x) == LET w == Gap(v, p, cnt) IN [w EXCEPT !.mem = FillN(w.mem, p + 1, cnt, x)]
InsertS(v, p, s) == LET w == Gap(v, p, Len(s)) IN [w EXCEPT !.mem = FillSeq(w.mem, p + 1, s)]
\* erase(first, last): _size -= last - first; memmove(first, last, end - last); capacity untouched
EraseR(v, f, l) == Norm([v EXCEPT !.mem = Memmove(v.mem, f + 1, l + 1, v.size - l), !.size = v.size - (l - f)])
EmplaceBack(v, x) == LET w == Grow(v, v.size + 1) IN [w EXCEPT !.mem[v.size + 1] = x, !.size = v.size + 1]
Resize(v, n) == IF n = v.size THEN v
                ELSE IF n < v.size THEN EraseR(v, n, v.size)
                ELSE LET w == IF n > Cap(v) THEN ChangeCap(v, n) ELSE v
                     IN [w EXCEPT !.mem = FillN(w.mem, v.size + 1, n - v.size, 0), !.size = n]
\* resize_uninitialized(n) followed by the caller writing x into the new slots (serialize.h does this)
ResizeUninit(v, n, x) ==
  IF Cap(v) < n THEN LET w == ChangeCap(v, n) IN [w EXCEPT !.mem = FillN(w.mem, v.size + 1, n - v.size, x), !.size = n]
  ELSE IF n < v.size THEN EraseR(v, n, v.size)
  ELSE [v EXCEPT !.mem = FillN(v.mem, v.size + 1, n - v.size, x), !.size = n]
Reserve(v, c) == IF c > Cap(v) THEN ChangeCap(v, c) ELSE v
Shrink(v) == ChangeCap(v, v.size)
Clear(v) == Resize(v, 0)
\* assign: clear(); if (capacity() < n) change_capacity(n); _size += n; fill
AssignS(v, s) == LET w0 == Clear(v)
                     w == IF Cap(w0) < Len(s) THEN ChangeCap(w0, Len(s)) ELSE w0
                 IN [w EXCEPT !.mem = FillSeq(w.mem, 1, s), !.size = Len(s)]
\* constructors: change_capacity(n) on a fresh object (no-op for n <= N), _size += n, fill
CtorS(s) == LET w == ChangeCap(Empty, Len(s)) IN [w EXCEPT !.mem = FillSeq(w.mem, 1, s), !.size = Len(s)]
CtorSize(n) == Resize(Empty, n)

\* the temporary operand: range constructor / (n, val) constructor / (n) constructor, then reserve(r)
TmpSpecs == [c : {"range"}, e : {Pat(k) : k \in TmpLens}, r : TmpReserves]
            \cup [c : {"fill"}, e : {Rep(k, V1) : k \in TmpLens}, r : {0}]
            \cup [c : {"size"}, e : {Rep(k, 0) : k \in TmpLens}, r : {0}]
MkTmp(t) == Reserve(IF t.c = "size" THEN CtorSize(Len(t.e)) ELSE CtorS(t.e), t.r)

\* prevector::operator< as coded: shorter is smaller, equal lengths lexicographic (NOT std::vector's ordering)
RECURSIVE LexLess(_, _)
LexLess(s, t) == IF s = <<>> THEN FALSE
                 ELSE IF Head(s) < Head(t) THEN TRUE ELSE IF Head(t) < Head(s) THEN FALSE ELSE LexLess(Tail(s), Tail(t))
Less(s, t) == IF Len(s) < Len(t) THEN TRUE ELSE IF Len(s) > Len(t) THEN FALSE ELSE LexLess(s, t)

\* ---------------------------------------------------------------- plain sequences
SIns(s, p, t) == SubSeq(s, 1, p) \o t \o SubSeq(s, p + 1, Len(s))
SDel(s, f, l) == SubSeq(s, 1, f) \o SubSeq(s, l + 1, Len(s))
SResize(s, n, x) == IF n <= Len(s) THEN SubSeq(s, 1, n) ELSE s \o Rep(n - Len(s), x)

Init == a = Empty /\ model = <<>> /\ lastAct = <<"init">> /\ lastRes = "none"

Do(act, v2, m2, res) == Len(m2) <= MaxLen /\ a' = v2 /\ model' = m2 /\ lastAct' = act /\ lastRes' = res
Obs(v) == [e |-> Elems(v)]

Next ==
  \/ \E x \in Vals : Do(<<"push_back", x>>, EmplaceBack(a, x), Append(model, x), "none")
  \/ \E x \in Vals : Do(<<"emplace_back", x>>, EmplaceBack(a, x), Append(model, x), "none")
  \/ a.size > 0 /\ Do(<<"pop_back">>, EraseR(a, a.size - 1, a.size), SubSeq(model, 1, Len(model) - 1), "none")
  \/ \E p \in 0..a.size, x \in Vals : Do(<<"insert", p, x>>, InsertN(a, p, 1, x), SIns(model, p, <<x>>), p)
  \/ \E p \in 0..a.size, c \in Counts, x \in Vals :
       Do(<<"insert_n", p, c, x>>, InsertN(a, p, c, x), SIns(model, p, Rep(c, x)), "none")
  \/ \E p \in 0..a.size, s \in Ranges : Do(<<"insert_range", p, s>>, InsertS(a, p, s), SIns(model, p, s), "none")
  \/ \E p \in 0..(a.size - 1) : Do(<<"erase", p>>, EraseR(a, p, p + 1), SDel(model, p, p + 1), p)
  \/ \E f \in 0..a.size : \E l \in f..a.size : Do(<<"erase_range", f, l>>, EraseR(a, f, l), SDel(model, f, l), f)
  \/ \E n \in 0..MaxLen : Do(<<"resize", n>>, Resize(a, n), SResize(model, n, 0), "none")
  \/ \E n \in 0..MaxLen, x \in Vals : Do(<<"resize_uninit", n, x>>, ResizeUninit(a, n, x), SResize(model, n, x), "none")
  \/ \E n \in 0..MaxLen, x \in Vals : Do(<<"assign_n", n, x>>, AssignS(a, Rep(n, x)), Rep(n, x), "none")
  \/ \E s \in Ranges : Do(<<"assign_range", s>>, AssignS(a, s), s, "none")
  \/ Do(<<"clear">>, Clear(a), <<>>, "none")
  \/ \E c \in Reserves : Do(<<"reserve", c>>, Reserve(a, c), model, "none")
  \/ Do(<<"shrink_to_fit">>, Shrink(a), model, "none")
  \/ \E p \in 0..(a.size - 1), x \in Vals : Do(<<"set", p, x>>, [a EXCEPT !.mem[p + 1] = x], [model EXCEPT ![p + 1] = x], "none")
  \* a = a  (guarded by &other == this)
  \/ Do(<<"self_assign">>, a, model, "none")
  \* two-object calls; the result is what the temporary / the new object holds afterwards
  \/ \E t \in TmpSpecs : Do(<<"copy_assign_from", t>>, AssignS(a, t.e), t.e, Obs(MkTmp(t)))
  \/ \E t \in TmpSpecs : Do(<<"move_assign_from", t>>, MkTmp(t), t.e, Obs(Empty))
  \/ \E t \in TmpSpecs : Do(<<"swap_with", t>>, MkTmp(t), t.e, Obs(a))
  \/ \E t \in TmpSpecs : Do(<<"copy_to", t>>, a, model, Obs(AssignS(MkTmp(t), Elems(a))))
  \/ \E t \in TmpSpecs : Do(<<"move_to", t>>, Empty, <<>>, Obs(a))
  \/ Do(<<"copy_construct">>, a, model, Obs(CtorS(Elems(a))))
  \/ Do(<<"move_construct">>, Empty, <<>>, Obs(a))
  \/ \E t \in TmpSpecs : Do(<<"eq", t>>, a, model, model = t.e)
  \/ \E t \in TmpSpecs : Do(<<"lt", t>>, a, model, Less(model, t.e))
  \/ \E t \in TmpSpecs : Do(<<"gt", t>>, a, model, Less(t.e, model))
Spec == Init /\ [][Next]_vars

----
\* C61: the container holds exactly what the plain sequence holds
Refines == Elems(a) = model
NoJunk == \A k \in 1..a.size : a.mem[k] # Junk
\* documented capacity relations: capacity >= size; the inline buffer is in use iff capacity <= N (then it is exactly N)
CapOK == /\ Cap(a) >= a.size
         /\ (a.direct <=> Cap(a) <= N)
         /\ (a.direct => Cap(a) = N)
\* "erase is not allowed to change the capacity"; reserve(c) leaves capacity >= c; only shrink_to_fit, swap and the
\* assignments/moves that replace the buffer may lower the capacity
CapMoves == [][/\ (lastAct'[1] \in {"erase", "erase_range", "pop_back", "clear", "set", "self_assign"} => Cap(a') = Cap(a))
               /\ (lastAct'[1] = "reserve" => Cap(a') >= lastAct'[2] /\ Cap(a') >= Cap(a))
               /\ (lastAct'[1] \in {"push_back", "emplace_back", "insert", "insert_n", "insert_range", "resize", "resize_uninit",
                                    "assign_n", "assign_range", "copy_assign_from"} => Cap(a') >= Cap(a))
               /\ (lastAct'[1] = "shrink_to_fit" /\ a.size <= N => a'.direct)]_vars

Mem(v) == IF v.direct THEN 0 ELSE Cap(v) * TSize
\* elems/size/empty are what the property talks about; cap/direct/alloc follow the growth policy (internal)
Proj == [cfg |-> [n |-> N, ts |-> TSize], elems |-> Elems(a), size |-> a.size, empty |-> (a.size = 0), cap |-> Cap(a), direct |-> a.direct, alloc |-> Mem(a)]
View0 == <<a, model>>
Emit == VFEdge(Proj, lastAct', lastRes', Proj')
====
