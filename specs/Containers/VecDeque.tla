---- MODULE VecDeque ----
(***************************************************************************)
(* VecDeque<T> (src/util/vecdeque.h): a deque in one ring buffer.  `d` is  *)
(* the representation as coded: `buf` (Cap(d) slots, Junk = no object),    *)
(* `off` (slot of the first element) and `size`; Reallocate / BufferIndex  *)
(* and every public call are written as the header does them.  `model` is  *)
(* the plain sequence (std::deque semantics) property C61 compares with.   *)
(* The second operand of copy / move / swap / comparison is a temporary    *)
(* built inside the action (reserve, push_back..., push_front...).         *)
(***************************************************************************)
EXTENDS Integers, Sequences, FiniteSets, TLC, VF
CONSTANTS Vals,        \* values written by the caller; T{} = 0 comes from resize()
          MaxLen,      \* bound on size()
          Reserves,    \* arguments of reserve()
          TmpReserves, TmpBack, TmpFront   \* shape of the temporary operand
VARIABLES d, model, lastAct, lastRes
vars == <<d, model, lastAct, lastRes>>

Junk == -1
Min(x, y) == IF x < y THEN x ELSE y
Cap(v) == Len(v.buf)
\* BufferIndex(pos), 0-based
BufIdx(v, pos) == IF pos >= Cap(v) - v.off THEN (v.off + pos) - Cap(v) ELSE v.off + pos
At(v, i) == v.buf[BufIdx(v, i) + 1]
Elems(v) == IF v.size = 0 THEN <<>> ELSE [i \in 1..v.size |-> At(v, i - 1)]
InRing(v, k) == \E p \in 0..(v.size - 1) : BufIdx(v, p) + 1 = k      \* k = 1-based slot
Norm(v) == [v EXCEPT !.buf = [k \in 1..Cap(v) |-> IF InRing(v, k) THEN v.buf[k] ELSE Junk]]
Empty == [buf |-> <<>>, off |-> 0, size |-> 0]
FirstPart(v) == Min(Cap(v) - v.off, v.size)

\* Reallocate(c): new buffer, memcpy of the part up to the end of the old buffer, then of the wrapped part; offset 0
Realloc(v, c) == LET fp == FirstPart(v)
                 IN [buf |-> [k \in 1..c |-> IF k <= fp THEN v.buf[v.off + k]
                                             ELSE IF k <= v.size THEN v.buf[k - fp] ELSE Junk],
                     off |-> 0, size |-> v.size]
GrowIfFull(v) == IF v.size = Cap(v) THEN Realloc(v, (v.size + 1) * 2) ELSE v
EmplaceBack(v, x) == LET w == GrowIfFull(v) IN [w EXCEPT !.buf[BufIdx(w, w.size) + 1] = x, !.size = w.size + 1]
EmplaceFront(v, x) == LET w == GrowIfFull(v)
                      IN [buf |-> [w.buf EXCEPT ![BufIdx(w, Cap(w) - 1) + 1] = x],
                          off |-> (IF w.off = 0 THEN Cap(w) ELSE w.off) - 1, size |-> w.size + 1]
PopFront(v) == Norm([v EXCEPT !.size = v.size - 1, !.off = IF v.off + 1 = Cap(v) THEN 0 ELSE v.off + 1])
PopBack(v) == Norm([v EXCEPT !.size = v.size - 1])
Resize(v, n) == IF n < v.size THEN Norm([v EXCEPT !.size = n])
                ELSE IF n > v.size
                THEN LET w == IF n > Cap(v) THEN Realloc(v, n) ELSE v
                     IN [w EXCEPT !.buf = [k \in 1..Cap(w) |-> IF \E p \in v.size..(n - 1) : BufIdx(w, p) + 1 = k THEN 0 ELSE w.buf[k]],
                                  !.size = n]
                ELSE v
Clear(v) == Norm([v EXCEPT !.size = 0])          \* capacity and offset stay
Reserve(v, c) == IF c > Cap(v) THEN Realloc(v, c) ELSE v
Shrink(v) == IF Cap(v) > v.size THEN Realloc(v, v.size) ELSE v
\* operator=(const&): clear(); Reallocate(other.size) (always); two-part memcpy from other
CopyOf(o) == Realloc(o, o.size)

\* temporary operand [r, b, f]: reserve(r); push_back each of b; push_front each of f
RECURSIVE PushAllBack(_, _)
PushAllBack(v, s) == IF s = <<>> THEN v ELSE PushAllBack(EmplaceBack(v, Head(s)), Tail(s))
RECURSIVE PushAllFront(_, _)
PushAllFront(v, s) == IF s = <<>> THEN v ELSE PushAllFront(EmplaceFront(v, Head(s)), Tail(s))
V1 == CHOOSE v \in Vals : \A w \in Vals : v <= w
V2 == IF Cardinality(Vals) > 1 THEN CHOOSE v \in Vals : v # V1 ELSE 0
Pat(k, x, y) == IF k = 0 THEN <<>> ELSE [i \in 1..k |-> IF i % 2 = 1 THEN x ELSE y]
TmpSpecs == {[r |-> r, b |-> Pat(nb, V1, V2), f |-> Pat(nf, V2, V1)] : r \in TmpReserves, nb \in TmpBack, nf \in TmpFront}
MkTmp(t) == PushAllFront(PushAllBack(Reserve(Empty, t.r), t.b), t.f)
Rev(s) == [i \in 1..Len(s) |-> s[Len(s) + 1 - i]]
TmpSeq(t) == (IF t.f = <<>> THEN <<>> ELSE Rev(t.f)) \o t.b

\* three-way comparison as std::deque does it (lexicographic): -1, 0, 1
RECURSIVE Cmp(_, _)
Cmp(s, t) == IF s = <<>> THEN (IF t = <<>> THEN 0 ELSE -1)
             ELSE IF t = <<>> THEN 1
             ELSE IF Head(s) < Head(t) THEN -1 ELSE IF Head(s) > Head(t) THEN 1 ELSE Cmp(Tail(s), Tail(t))

Rep(n, x) == IF n = 0 THEN <<>> ELSE [k \in 1..n |-> x]
SResize(s, n, x) == IF n <= Len(s) THEN SubSeq(s, 1, n) ELSE s \o Rep(n - Len(s), x)

Init == d = Empty /\ model = <<>> /\ lastAct = <<"init">> /\ lastRes = "none"
Do(act, v2, m2, res) == Len(m2) <= MaxLen /\ d' = v2 /\ model' = m2 /\ lastAct' = act /\ lastRes' = res
Obs(v) == [e |-> Elems(v)]

Next ==
  \/ \E x \in Vals : Do(<<"push_back", x>>, EmplaceBack(d, x), Append(model, x), "none")
  \/ \E x \in Vals : Do(<<"emplace_back", x>>, EmplaceBack(d, x), Append(model, x), "none")
  \/ \E x \in Vals : Do(<<"push_front", x>>, EmplaceFront(d, x), <<x>> \o model, "none")
  \/ \E x \in Vals : Do(<<"emplace_front", x>>, EmplaceFront(d, x), <<x>> \o model, "none")
  \/ d.size > 0 /\ Do(<<"pop_back">>, PopBack(d), SubSeq(model, 1, Len(model) - 1), "none")
  \/ d.size > 0 /\ Do(<<"pop_front">>, PopFront(d), Tail(model), "none")
  \/ \E n \in 0..MaxLen : Do(<<"resize", n>>, Resize(d, n), SResize(model, n, 0), "none")
  \/ Do(<<"clear">>, Clear(d), <<>>, "none")
  \/ \E c \in Reserves : Do(<<"reserve", c>>, Reserve(d, c), model, "none")
  \/ Do(<<"shrink_to_fit">>, Shrink(d), model, "none")
  \/ \E p \in 0..(d.size - 1), x \in Vals :
       Do(<<"set", p, x>>, [d EXCEPT !.buf[BufIdx(d, p) + 1] = x], [model EXCEPT ![p + 1] = x], "none")
  \/ Do(<<"self_assign">>, d, model, "none")
  \/ \E t \in TmpSpecs : Do(<<"copy_assign_from", t>>, CopyOf(MkTmp(t)), TmpSeq(t), Obs(MkTmp(t)))
  \* move assignment and move construction are swaps
  \/ \E t \in TmpSpecs : Do(<<"move_assign_from", t>>, MkTmp(t), TmpSeq(t), Obs(d))
  \/ \E t \in TmpSpecs : Do(<<"swap_with", t>>, MkTmp(t), TmpSeq(t), Obs(d))
  \/ \E t \in TmpSpecs : Do(<<"copy_to", t>>, d, model, Obs(CopyOf(d)))
  \/ Do(<<"copy_construct">>, d, model, Obs(CopyOf(d)))
  \/ Do(<<"move_construct">>, Empty, <<>>, Obs(d))
  \/ \E t \in TmpSpecs : Do(<<"eq", t>>, d, model, model = TmpSeq(t))
  \/ \E t \in TmpSpecs : Do(<<"cmp", t>>, d, model, Cmp(model, TmpSeq(t)))
Spec == Init /\ [][Next]_vars

----
Refines == Elems(d) = model
NoJunk == \A p \in 0..(d.size - 1) : At(d, p) # Junk
\* the class invariant stated in the header
RingOK == /\ d.size <= Cap(d)
          /\ (Cap(d) = 0 /\ d.off = 0) \/ d.off < Cap(d)
\* documented: reserve(c) => capacity >= c and never shrinks; clear keeps the capacity; shrink_to_fit => capacity = size
CapMoves == [][/\ (lastAct'[1] = "reserve" => Cap(d') >= lastAct'[2] /\ Cap(d') >= Cap(d))
               /\ (lastAct'[1] \in {"clear", "pop_back", "pop_front", "set", "self_assign"} => Cap(d') = Cap(d))
               /\ (lastAct'[1] = "shrink_to_fit" => Cap(d') = d'.size)
               /\ (lastAct'[1] \in {"push_back", "emplace_back", "push_front", "emplace_front", "resize"} => Cap(d') >= Cap(d))]_vars

Wrapped(v) == v.off + v.size > Cap(v)
\* elems/size/empty/live are what the property talks about; cap and the position in the ring follow the growth policy
Proj == [elems |-> Elems(d), size |-> d.size, empty |-> (d.size = 0), live |-> d.size, cap |-> Cap(d), wrapped |-> Wrapped(d)]
View0 == <<d, model>>
\* Proj hides the offset: the replay graph is keyed by the full representation
Emit == VFEdgeK(d, Proj, lastAct', lastRes', d', Proj')
====
