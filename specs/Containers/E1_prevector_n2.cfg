CONSTANTS
  N = 2
  TSize = 2
  Vals = {1, 2}
  MaxLen = 4
  Counts = {0, 1, 2}
  RangeLens = {0, 1, 2}
  Reserves = {0, 2, 3, 5}
  TmpLens = {0, 2, 3}
  TmpReserves = {0, 4}
INIT Init
NEXT Next
VIEW View0
INVARIANTS Refines NoJunk CapOK
PROPERTIES CapMoves
ACTION_CONSTRAINT Emit
CHECK_DEADLOCK FALSE
