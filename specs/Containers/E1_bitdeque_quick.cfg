CONSTANTS
  B = 4
  MaxLen = 5
  Counts = {0, 1, 2}
  RangeLens = {0, 1, 2}
  TmpLens = {0, 5}
INIT Init
NEXT Next
VIEW View0
INVARIANTS Refines PadOK EmptyOK
ACTION_CONSTRAINT Emit
CHECK_DEADLOCK FALSE
