---- MODULE ContainersObs ----
(***************************************************************************)
(* Deviation handling for C61 (DESIGN section 8).  When the implementation *)
(* agrees with the model on everything the property talks about (elements, *)
(* size, counts) but differs in bookkeeping the property leaves open       *)
(* (capacity growth policy, which free block is handed out), the observed  *)
(* step is written to the file named by env STATES as                      *)
(*   {k: container, a: action, pre: projection, post: projection}          *)
(* and TLC evaluates here what the containers document about that          *)
(* bookkeeping, on the implementation's own states.                        *)
(***************************************************************************)
EXTENDS Integers, Sequences, FiniteSets, TLC, Json, IOUtils
Recs == ndJsonDeserialize(IOEnv.STATES)
VARIABLE i
Init == i \in 1..Len(Recs)
Next == UNCHANGED i

\* prevector: capacity >= size; inline storage in use iff capacity <= N (then exactly N); allocated_memory() matches;
\* erase never changes the capacity; reserve(c) gives at least c; nothing but shrink_to_fit / swap / move lowers it;
\* shrink_to_fit of a small vector returns to the inline buffer
PrevectorOK(r) ==
  LET n == r.post.cfg.n
      ts == r.post.cfg.ts
      pre == r.pre
      post == r.post
      op == r.a[1]
  IN /\ post.cap >= post.size
     /\ (post.direct <=> post.cap <= n)
     /\ (post.direct => post.cap = n)
     /\ post.alloc = (IF post.direct THEN 0 ELSE post.cap * ts)
     /\ (op \in {"erase", "erase_range", "pop_back", "clear", "set", "self_assign"} => post.cap = pre.cap)
     /\ (op = "reserve" => post.cap >= r.a[2] /\ post.cap >= pre.cap)
     /\ (op \in {"push_back", "emplace_back", "insert", "insert_n", "insert_range", "resize", "resize_uninit",
                 "assign_n", "assign_range", "copy_assign_from"} => post.cap >= pre.cap)
     /\ (op = "shrink_to_fit" /\ post.size <= n => post.direct)

\* VecDeque: capacity >= size; reserve(c) gives at least c and never shrinks; clear / pop keep the capacity;
\* shrink_to_fit makes capacity = size; growth never lowers it
VecDequeOK(r) ==
  LET pre == r.pre
      post == r.post
      op == r.a[1]
  IN /\ post.cap >= post.size
     /\ (post.wrapped => post.size >= 2)
     /\ (op = "reserve" => post.cap >= r.a[2] /\ post.cap >= pre.cap)
     /\ (op \in {"clear", "pop_back", "pop_front", "set", "self_assign"} => post.cap = pre.cap)
     /\ (op = "shrink_to_fit" => post.cap = post.size)
     /\ (op \in {"push_back", "emplace_back", "push_front", "emplace_front", "resize"} => post.cap >= pre.cap)

\* PoolResource: whatever block is chosen, live blocks are served by the right allocator, lie inside a chunk, are
\* aligned, pairwise disjoint, and live + free + not-yet-carved bytes add up to the chunk memory
Max(x, y) == IF x > y THEN x ELSE y
PoolOK(r) ==
  LET post == r.post
      elem == Max(8, post.cfg.al)
      numel(b) == ((b + elem - 1) \div elem) + (IF b = 0 THEN 1 ELSE 0)
      round(b) == numel(b) * elem
      usable(b, al) == al <= elem /\ b <= post.cfg.mb
      ids == {j \in 1..Len(post.addr) : post.addr[j].c # -1}
      pool == {j \in ids : post.addr[j].c > 0}
      liveBytes(x) == IF x.c > 0 THEN round(x.sz) ELSE 0
      liveSum[k \in 0..Len(post.addr)] == IF k = 0 THEN 0 ELSE liveBytes(post.addr[k]) + liveSum[k - 1]
      freeSum[k \in 0..Len(post.fl)] == IF k = 0 THEN 0 ELSE post.fl[k] * (k - 1) * elem + freeSum[k - 1]
  IN /\ \A j \in ids : usable(post.addr[j].sz, post.addr[j].al) <=> post.addr[j].c > 0
     /\ \A j \in pool : /\ post.addr[j].c \in 1..post.nchunks
                        /\ post.addr[j].o >= 0 /\ post.addr[j].o % elem = 0
                        /\ post.addr[j].o + round(post.addr[j].sz) <= post.chunk_size
     /\ \A j, k \in pool : j # k =>
           ~(/\ post.addr[j].c = post.addr[k].c
             /\ post.addr[j].o < post.addr[k].o + round(post.addr[k].sz)
             /\ post.addr[k].o < post.addr[j].o + round(post.addr[j].sz))
     /\ liveSum[Len(post.addr)] + freeSum[Len(post.fl)] + post.avail = post.nchunks * post.chunk_size
     /\ \A j \in 1..Len(post.state) : post.state[j] \in {"free", "ok"}

DocOK == LET r == Recs[i] IN
         CASE r.k = "prevector" -> PrevectorOK(r)
           [] r.k = "vecdeque" -> VecDequeOK(r)
           [] r.k = "pool" -> PoolOK(r)
           [] OTHER -> FALSE
====
