CONSTANTS
  MaxBlock = 32
  AlignB = 8
  ChunkReq = 64
  Sizes = {0, 24, 32, 40}
  Aligns = {1, 16}
  MaxLive = 2
  MaxChunks = 2
INIT Init
NEXT Next
VIEW View0
INVARIANTS Disjoint NoAlias InChunk Served Accounting ClassZeroUnused
PROPERTIES Reuse ChunkOnlyWhenNeeded
ACTION_CONSTRAINT Emit
CHECK_DEADLOCK FALSE
