CONSTANTS
  MaxBlock = 32
  AlignB = 16
  ChunkReq = 50
  Sizes = {0, 16, 17, 32, 48}
  Aligns = {1, 16, 32}
  MaxLive = 2
  MaxChunks = 3
INIT Init
NEXT Next
VIEW View0
INVARIANTS Disjoint NoAlias InChunk Served Accounting ClassZeroUnused
PROPERTIES Reuse ChunkOnlyWhenNeeded
ACTION_CONSTRAINT Emit
CHECK_DEADLOCK FALSE
