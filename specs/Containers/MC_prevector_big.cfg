CONSTANTS
  N = 4
  TSize = 1
  Vals = {1, 2}
  MaxLen = 6
  Counts = {0, 1, 2, 3}
  RangeLens = {0, 1, 2, 3}
  Reserves = {0, 4, 5, 8}
  TmpLens = {0, 1, 4, 5}
  TmpReserves = {0, 6}
INIT Init
NEXT Next
VIEW View0
INVARIANTS Refines NoJunk CapOK
PROPERTIES CapMoves
CHECK_DEADLOCK FALSE
