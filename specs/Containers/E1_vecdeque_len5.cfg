CONSTANTS
  Vals = {1}
  MaxLen = 5
  Reserves = {0, 3, 6}
  TmpReserves = {0, 4}
  TmpBack = {0, 2}
  TmpFront = {0, 3}
INIT Init
NEXT Next
VIEW View0
INVARIANTS Refines NoJunk RingOK
PROPERTIES CapMoves
ACTION_CONSTRAINT Emit
CHECK_DEADLOCK FALSE
