CONSTANTS
  B = 3
  MaxLen = 6
  Counts = {0, 1, 2, 3}
  RangeLens = {0, 1, 3}
  TmpLens = {0, 2, 3, 6}
INIT Init
NEXT Next
VIEW View0
INVARIANTS Refines PadOK EmptyOK
ACTION_CONSTRAINT Emit
CHECK_DEADLOCK FALSE
