CONSTANTS
  B = 4
  MaxLen = 9
  Counts = {0, 1, 2, 3, 4, 5}
  RangeLens = {0, 1, 2, 3, 4, 5}
  TmpLens = {0, 3, 4, 5, 8, 9}
INIT Init
NEXT Next
VIEW View0
INVARIANTS Refines PadOK EmptyOK
CHECK_DEADLOCK FALSE
