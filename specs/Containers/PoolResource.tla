---- MODULE PoolResource ----
(***************************************************************************)
(* PoolResource<MaxBlock, AlignB>(ChunkReq) (src/support/allocators/       *)
(* pool.h).  State as coded: number of chunks, bump pointer `cur` inside   *)
(* the last chunk, one LIFO free list per size class holding block         *)
(* addresses [c, o] (chunk number, byte offset), and the live blocks the   *)
(* caller holds.  Blocks that the pool cannot serve (too big / over-       *)
(* aligned) go to operator new: chunk 0.  Actions: Allocate(bytes, align), *)
(* Deallocate(block).  C61: live blocks never overlap, are aligned, a      *)
(* freed block is reused for its size class, every byte of every chunk is  *)
(* accounted for.                                                          *)
(***************************************************************************)
EXTENDS Integers, Sequences, FiniteSets, TLC, VF
CONSTANTS MaxBlock, AlignB, ChunkReq,   \* template parameters and constructor argument
          Sizes, Aligns,                \* the caller asks for <<bytes, alignment>> with bytes a multiple of alignment (or 0 bytes)
          MaxLive, MaxChunks            \* bounds
VARIABLES nchunks, cur, fl, live, lastAct, lastRes
vars == <<nchunks, cur, fl, live, lastAct, lastRes>>

Max(x, y) == IF x > y THEN x ELSE y
ELEM == Max(8, AlignB)                                  \* ELEM_ALIGN_BYTES = max(alignof(ListNode), ALIGN_BYTES)
NumElem(b) == ((b + ELEM - 1) \div ELEM) + (IF b = 0 THEN 1 ELSE 0)     \* NumElemAlignBytes
ChunkSize == NumElem(ChunkReq) * ELEM
K == MaxBlock \div ELEM                                 \* free lists 0..K
Usable(b, al) == al <= ELEM /\ b <= MaxBlock            \* IsFreeListUsable
Round(b) == NumElem(b) * ELEM
Absent == [c |-> -1, o |-> -1, sz |-> -1, al |-> -1]
Ids == 1..MaxLive
Requests == {rq \in Sizes \X Aligns : IF rq[1] = 0 THEN rq[2] = 1 ELSE rq[1] % rq[2] = 0}

Init == /\ nchunks = 1 /\ cur = 0                        \* the constructor allocates the first chunk
        /\ fl = [k \in 0..K |-> <<>>]
        /\ live = [i \in Ids |-> Absent]
        /\ lastAct = <<"init">> /\ lastRes = "none"

Allocate(id, b, al) ==
  /\ live[id] = Absent /\ \A j \in Ids : j < id => live[j] # Absent
  /\ lastAct' = <<"alloc", id, b, al>> /\ lastRes' = "none"
  /\ IF ~Usable(b, al)
     THEN /\ live' = [live EXCEPT ![id] = [c |-> 0, o |-> 0, sz |-> b, al |-> al]]     \* ::operator new
          /\ UNCHANGED <<nchunks, cur, fl>>
     ELSE LET k == NumElem(b) IN
          IF fl[k] # <<>>
          THEN /\ live' = [live EXCEPT ![id] = [c |-> Head(fl[k]).c, o |-> Head(fl[k]).o, sz |-> b, al |-> al]]
               /\ fl' = [fl EXCEPT ![k] = Tail(fl[k])]
               /\ UNCHANGED <<nchunks, cur>>
          ELSE IF k * ELEM > ChunkSize - cur
               THEN \* AllocateChunk: what is left of the current chunk goes to the free list of its size, then carve from a new chunk
                    /\ nchunks < MaxChunks
                    /\ LET rem == ChunkSize - cur IN
                       fl' = IF rem # 0 THEN [fl EXCEPT ![rem \div ELEM] = <<[c |-> nchunks, o |-> cur]>> \o fl[rem \div ELEM]] ELSE fl
                    /\ nchunks' = nchunks + 1
                    /\ cur' = k * ELEM
                    /\ live' = [live EXCEPT ![id] = [c |-> nchunks + 1, o |-> 0, sz |-> b, al |-> al]]
               ELSE /\ live' = [live EXCEPT ![id] = [c |-> nchunks, o |-> cur, sz |-> b, al |-> al]]
                    /\ cur' = cur + k * ELEM
                    /\ UNCHANGED <<nchunks, fl>>

Deallocate(id) ==
  /\ live[id] # Absent
  /\ lastAct' = <<"dealloc", id>> /\ lastRes' = "none"
  /\ live' = [live EXCEPT ![id] = Absent]
  /\ UNCHANGED <<nchunks, cur>>
  /\ LET b == live[id] IN
     fl' = IF Usable(b.sz, b.al) THEN [fl EXCEPT ![NumElem(b.sz)] = <<[c |-> b.c, o |-> b.o]>> \o fl[NumElem(b.sz)]] ELSE fl

Next == \/ \E id \in Ids, rq \in Requests : Allocate(id, rq[1], rq[2])
        \/ \E id \in Ids : Deallocate(id)
Spec == Init /\ [][Next]_vars

----
\* every region of chunk memory that is spoken for: [c, o, n] = chunk, offset, bytes
LiveExt == {[c |-> live[i].c, o |-> live[i].o, n |-> Round(live[i].sz)] : i \in {j \in Ids : live[j] # Absent /\ live[j].c > 0}}
FreeExt == UNION {{[c |-> fl[k][i].c, o |-> fl[k][i].o, n |-> k * ELEM] : i \in 1..Len(fl[k])} : k \in 0..K}
AvailExt == IF cur < ChunkSize THEN {[c |-> nchunks, o |-> cur, n |-> ChunkSize - cur]} ELSE {}
Overlap(x, y) == x.c = y.c /\ x.o < y.o + y.n /\ y.o < x.o + x.n
RECURSIVE Sum(_)
Sum(S) == IF S = {} THEN 0 ELSE LET x == CHOOSE x \in S : TRUE IN x.n + Sum(S \ {x})

\* allocations never overlap (nor do they overlap memory the pool still considers free)
Disjoint == \A x, y \in LiveExt \cup FreeExt \cup AvailExt : x # y => ~Overlap(x, y)
NoAlias == \A i, j \in Ids : (i # j /\ live[i] # Absent /\ live[j] # Absent /\ live[i].c > 0 /\ live[j].c > 0)
                              => ~(live[i].c = live[j].c /\ live[i].o = live[j].o)
\* blocks lie inside a chunk and are aligned (chunks come from operator new aligned to ELEM)
InChunk == \A x \in LiveExt \cup FreeExt : x.c \in 1..nchunks /\ x.o >= 0 /\ x.o + x.n <= ChunkSize /\ x.o % ELEM = 0
\* the pool serves exactly the requests it can serve
Served == \A i \in Ids : live[i] # Absent => (Usable(live[i].sz, live[i].al) <=> live[i].c > 0)
\* memory accounting is exact: live + free + not yet carved = all chunk memory
Accounting == Sum(LiveExt) + Sum(FreeExt) + (ChunkSize - cur) = nchunks * ChunkSize
              /\ Cardinality(LiveExt) = Cardinality({j \in Ids : live[j] # Absent /\ live[j].c > 0})
              /\ Cardinality(FreeExt) = Sum({[k |-> k, n |-> Len(fl[k])] : k \in 0..K})
ClassZeroUnused == fl[0] = <<>>
\* a freed block is reused for its size class: no new memory is carved while the class has a free block,
\* and the block handed out is one of the free ones
Reuse == [][\A id \in Ids : (lastAct'[1] = "alloc" /\ lastAct'[2] = id /\ Usable(lastAct'[3], lastAct'[4]) /\ fl[NumElem(lastAct'[3])] # <<>>)
               => /\ nchunks' = nchunks /\ cur' = cur
                  /\ \E i \in 1..Len(fl[NumElem(lastAct'[3])]) :
                        fl[NumElem(lastAct'[3])][i] = [c |-> live'[id].c, o |-> live'[id].o]]_vars
\* a new chunk is taken only when the request does not fit into what is left
ChunkOnlyWhenNeeded == [][nchunks' # nchunks => (nchunks' = nchunks + 1 /\ lastAct'[1] = "alloc" /\ Round(lastAct'[3]) > ChunkSize - cur)]_vars

\* counts are the accounting the property talks about; the addresses chosen are policy (compared as internal)
Proj == [cfg |-> [mb |-> MaxBlock, al |-> AlignB, req |-> ChunkReq], chunk_size |-> ChunkSize, nchunks |-> nchunks, avail |-> ChunkSize - cur,
         fl |-> [k \in 1..(K + 1) |-> Len(fl[k - 1])],
         state |-> [i \in Ids |-> IF live[i] = Absent THEN "free" ELSE "ok"],
         addr |-> live]
View0 == <<nchunks, cur, fl, live>>
\* Proj hides the order of the free lists: the replay graph is keyed by the full state
Emit == VFEdgeK(View0, Proj, lastAct', lastRes', View0', Proj')
====
