CONSTANTS
  N = 3
  TSize = 4
  Vals = {1}
  MaxLen = 5
  Counts = {0, 1, 2}
  RangeLens = {0, 1, 2}
  Reserves = {0, 3, 4, 7}
  TmpLens = {0, 3, 4}
  TmpReserves = {0, 5}
INIT Init
NEXT Next
VIEW View0
INVARIANTS Refines NoJunk CapOK
PROPERTY CapMoves
ACTION_CONSTRAINT Emit
CHECK_DEADLOCK FALSE
