---- MODULE BitDeque ----
(***************************************************************************)
(* bitdeque<B> (src/util/bitdeque.h): a deque of bools packed into words   *)
(* of B bits held by a std::deque.  `q` is the representation as coded:    *)
(* `bits` = the words laid end to end (1 = set), `padb` / `pade` = unused  *)
(* bits in the first / last word; extend_ / erase_ front / back, the       *)
(* element-wise std::move / move_backward of insert and erase and every    *)
(* public call are written as the header does them.  `model` is the plain  *)
(* sequence (std::deque<bool> semantics) property C61 compares with.       *)
(* `mf` marks a moved-from object, whose content the standard leaves       *)
(* unspecified: only calls that overwrite it may follow.                   *)
(***************************************************************************)
EXTENDS Integers, Sequences, FiniteSets, TLC, VF
CONSTANTS B,            \* BITS_PER_WORD (template parameter)
          MaxLen,       \* bound on size()
          Counts,       \* counts for insert(pos, count, val)
          RangeLens,    \* lengths of source ranges of insert / assign / constructors
          TmpLens       \* sizes of the temporary operand
VARIABLES q, mf, model, lastAct, lastRes
vars == <<q, mf, model, lastAct, lastRes>>

Zeros(n) == IF n = 0 THEN <<>> ELSE [k \in 1..n |-> 0]
Rep(n, x) == IF n = 0 THEN <<>> ELSE [k \in 1..n |-> x]
Pat(k, x) == IF k = 0 THEN <<>> ELSE [i \in 1..k |-> IF i % 2 = 1 THEN x ELSE 1 - x]
Ranges == {Pat(k, 1) : k \in RangeLens} \cup {Pat(k, 0) : k \in RangeLens}

\* ---------------------------------------------------------------- representation as coded
NW(v) == Len(v.bits) \div B
Size(v) == Len(v.bits) - v.padb - v.pade
Bit(v, i) == v.bits[v.padb + i + 1]                        \* i = logical index, 0-based
SetBit(v, i, x) == [v EXCEPT !.bits[v.padb + i + 1] = x]
Elems(v) == IF Size(v) <= 0 THEN <<>> ELSE [i \in 1..Size(v) |-> v.bits[v.padb + i]]
EmptyQ == [bits |-> <<>>, padb |-> 0, pade |-> 0]

ExtendBack(v, n) ==
  IF n > v.pade
  THEN LET n1 == n - (v.pade + 1)
       IN [bits |-> v.bits \o Zeros((1 + (n1 \div B)) * B), padb |-> v.padb, pade |-> (B - 1) - (n1 % B)]
  ELSE [v EXCEPT !.pade = v.pade - n]
ExtendFront(v, n) ==
  IF n > v.padb
  THEN LET n1 == n - (v.padb + 1)
       IN [bits |-> Zeros((1 + (n1 \div B)) * B) \o v.bits, padb |-> (B - 1) - (n1 % B), pade |-> v.pade]
  ELSE [v EXCEPT !.padb = v.padb - n]
\* erase_back(n): drop whole words if n covers the used part of the last word, then reset the remaining bits one by one
EraseBack(v, n) ==
  LET big == n >= B - v.pade
      n1 == IF big THEN n - (B - v.pade) ELSE n
      w == IF big THEN [bits |-> SubSeq(v.bits, 1, Len(v.bits) - (1 + (n1 \div B)) * B), padb |-> v.padb, pade |-> 0] ELSE v
      n2 == IF big THEN n1 % B ELSE n1
      L == Len(w.bits)
  IN [bits |-> [k \in 1..L |-> IF k > L - w.pade - n2 /\ k <= L - w.pade THEN 0 ELSE w.bits[k]],
      padb |-> w.padb, pade |-> w.pade + n2]
EraseFront(v, n) ==
  LET big == n >= B - v.padb
      n1 == IF big THEN n - (B - v.padb) ELSE n
      w == IF big THEN [bits |-> SubSeq(v.bits, (1 + (n1 \div B)) * B + 1, Len(v.bits)), padb |-> 0, pade |-> v.pade] ELSE v
      n2 == IF big THEN n1 % B ELSE n1
  IN [bits |-> [k \in 1..Len(w.bits) |-> IF k > w.padb /\ k <= w.padb + n2 THEN 0 ELSE w.bits[k]],
      padb |-> w.padb + n2, pade |-> w.pade]
\* std::move(first, last, dst) and std::move_backward(first, last, dst_end) on logical positions, element by element
RECURSIVE MoveFwd(_, _, _, _)
MoveFwd(v, s, t, n) == IF n = 0 THEN v ELSE MoveFwd(SetBit(v, t, Bit(v, s)), s + 1, t + 1, n - 1)
RECURSIVE MoveBwd(_, _, _, _)
MoveBwd(v, se, te, n) == IF n = 0 THEN v ELSE MoveBwd(SetBit(v, te - 1, Bit(v, se - 1)), se - 1, te - 1, n - 1)
\* insert_zeroes(before, count): make room at the cheaper end and shift the shorter part (the hole keeps stale bits)
MakeRoom(v, before, count) ==
  LET after == Size(v) - before
  IN IF before < after
     THEN MoveFwd(ExtendFront(v, count), count, 0, before)
     ELSE LET w == ExtendBack(v, count) IN MoveBwd(w, before + after, Size(w), after)
RECURSIVE Write(_, _, _)
Write(v, p, s) == IF s = <<>> THEN v ELSE Write(SetBit(v, p, Head(s)), p + 1, Tail(s))
InsertS(v, p, s) == Write(MakeRoom(v, p, Len(s)), p, s)
\* erase(first, last)
EraseR(v, f, l) ==
  LET before == f
      dist == l - f
      after == Size(v) - l
  IN IF before < after
     THEN EraseFront(MoveBwd(v, before, Size(v) - after, before), dist)
     ELSE EraseBack(MoveFwd(v, Size(v) - after, before, after), dist)
PushBack(v, x) == LET w == ExtendBack(v, 1) IN SetBit(w, Size(w) - 1, x)
PushFront(v, x) == SetBit(ExtendFront(v, 1), 0, x)
Resize(v, n) == IF n < Size(v) THEN EraseBack(v, Size(v) - n) ELSE ExtendBack(v, n - Size(v))
\* assign(count, val): fresh words, all bits = val, then erase_back of the surplus of the last word
AssignN(n, x) == LET nw == (n + B - 1) \div B
                     w == [bits |-> Rep(nw * B, x), padb |-> 0, pade |-> 0]
                 IN IF n % B # 0 THEN EraseBack(w, B - (n % B)) ELSE w
AssignS(s) == Write(AssignN(Len(s), 0), 0, s)

\* the temporary operand: (count, val) / (count) / range / initializer-list constructor (all go through assign)
TmpSpecs == [c : {"range", "ilist"}, e : {Pat(k, 1) : k \in TmpLens}]
            \cup [c : {"fill"}, e : {Rep(k, 1) : k \in TmpLens}] \cup [c : {"size"}, e : {Rep(k, 0) : k \in TmpLens}]
MkTmp(t) == AssignS(t.e)

\* ---------------------------------------------------------------- plain sequences
SIns(s, p, t) == SubSeq(s, 1, p) \o t \o SubSeq(s, p + 1, Len(s))
SDel(s, f, l) == SubSeq(s, 1, f) \o SubSeq(s, l + 1, Len(s))
SResize(s, n, x) == IF n <= Len(s) THEN SubSeq(s, 1, n) ELSE s \o Rep(n - Len(s), x)

Init == q = EmptyQ /\ mf = FALSE /\ model = <<>> /\ lastAct = <<"init">> /\ lastRes = "none"
Do(act, v2, m2, res) == Len(m2) <= MaxLen /\ q' = v2 /\ model' = m2 /\ mf' = FALSE /\ lastAct' = act /\ lastRes' = res
\* the object was moved from: unspecified content, written as the empty container
DoMovedFrom(act, res) == q' = EmptyQ /\ model' = <<>> /\ mf' = TRUE /\ lastAct' = act /\ lastRes' = res
Obs(v) == [e |-> Elems(v)]
n0 == Size(q)

\* calls that do not read the old content (legal on a moved-from object as well)
Overwriting ==
  \/ Do(<<"clear">>, EmptyQ, <<>>, "none")
  \/ \E n \in 0..MaxLen, x \in {0, 1} : Do(<<"assign_n", n, x>>, AssignN(n, x), Rep(n, x), "none")
  \/ \E s \in Ranges : Do(<<"assign_range", s>>, AssignS(s), s, "none")
  \/ \E s \in Ranges : Do(<<"assign_ilist", s>>, AssignS(s), s, "none")
  \/ \E t \in TmpSpecs : Do(<<"copy_assign_from", t>>, MkTmp(t), t.e, Obs(MkTmp(t)))
  \/ \E t \in TmpSpecs : Do(<<"move_assign_from", t>>, MkTmp(t), t.e, "none")
Reading ==
  \/ \E x \in {0, 1} : Do(<<"push_back", x>>, PushBack(q, x), Append(model, x), "none")
  \/ \E x \in {0, 1} : Do(<<"emplace_back", x>>, PushBack(q, x), Append(model, x), x)
  \/ \E x \in {0, 1} : Do(<<"push_front", x>>, PushFront(q, x), <<x>> \o model, "none")
  \/ \E x \in {0, 1} : Do(<<"emplace_front", x>>, PushFront(q, x), <<x>> \o model, x)
  \/ n0 > 0 /\ Do(<<"pop_back">>, EraseBack(q, 1), SubSeq(model, 1, Len(model) - 1), "none")
  \/ n0 > 0 /\ Do(<<"pop_front">>, EraseFront(q, 1), Tail(model), "none")
  \/ \E p \in 0..n0, x \in {0, 1} : Do(<<"insert", p, x>>, InsertS(q, p, <<x>>), SIns(model, p, <<x>>), p)
  \/ \E p \in 0..n0, x \in {0, 1} : Do(<<"emplace", p, x>>, InsertS(q, p, <<x>>), SIns(model, p, <<x>>), p)
  \/ \E p \in 0..n0, c \in Counts, x \in {0, 1} : Do(<<"insert_n", p, c, x>>, InsertS(q, p, Rep(c, x)), SIns(model, p, Rep(c, x)), p)
  \/ \E p \in 0..n0, s \in Ranges : Do(<<"insert_range", p, s>>, InsertS(q, p, s), SIns(model, p, s), p)
  \/ \E p \in 0..(n0 - 1) : Do(<<"erase", p>>, EraseR(q, p, p + 1), SDel(model, p, p + 1), p)
  \/ \E f \in 0..n0 : \E l \in f..n0 : Do(<<"erase_range", f, l>>, EraseR(q, f, l), SDel(model, f, l), f)
  \/ \E n \in 0..MaxLen : Do(<<"resize", n>>, Resize(q, n), SResize(model, n, 0), "none")
  \/ Do(<<"shrink_to_fit">>, q, model, "none")
  \/ \E p \in 0..(n0 - 1), x \in {0, 1} : Do(<<"set", p, x>>, SetBit(q, p, x), [model EXCEPT ![p + 1] = x], "none")
  \/ \E p \in 0..MaxLen : Do(<<"at", p>>, q, model, IF p < n0 THEN model[p + 1] ELSE "throw")
  \/ Do(<<"self_assign">>, q, model, "none")
  \/ \E t \in TmpSpecs : Do(<<"swap_with", t>>, MkTmp(t), t.e, Obs(q))
  \/ \E t \in TmpSpecs : Do(<<"copy_to", t>>, q, model, Obs(q))
  \/ Do(<<"copy_construct">>, q, model, Obs(q))
  \/ \E t \in TmpSpecs : DoMovedFrom(<<"move_to", t>>, Obs(q))
  \/ DoMovedFrom(<<"move_construct">>, Obs(q))
Next == Overwriting \/ (~mf /\ Reading)
Spec == Init /\ [][Next]_vars

----
Refines == Elems(q) = model
\* representation invariants the code relies on: unused bits are clear (resize / extend hand them out as `false`)
PadOK == /\ q.padb \in 0..(B - 1) /\ q.pade \in 0..(B - 1)
         /\ Len(q.bits) % B = 0 /\ Size(q) >= 0
         /\ (Len(q.bits) = 0 => q.padb = 0 /\ q.pade = 0)
         /\ \A k \in 1..Len(q.bits) : (k <= q.padb \/ k > Len(q.bits) - q.pade) => q.bits[k] = 0
\* empty() as coded agrees with size() = 0
EmptyCoded == NW(q) = 0 \/ (NW(q) = 1 /\ q.padb + q.pade = B)
EmptyOK == EmptyCoded <=> (Size(q) = 0)

Proj == [cfg |-> [b |-> B], elems |-> Elems(q), size |-> Size(q), empty |-> (Size(q) = 0), movedfrom |-> mf]
View0 == <<q, mf, model>>
\* Proj hides the position inside the words: the replay graph is keyed by the full representation
Emit == VFEdgeK(<<q, mf>>, Proj, lastAct', lastRes', <<q', mf'>>, Proj')
====
