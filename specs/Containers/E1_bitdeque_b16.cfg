CONSTANTS
  B = 16
  MaxLen = 4
  Counts = {0, 1, 2}
  RangeLens = {0, 1, 2}
  TmpLens = {0, 3, 4}
INIT Init
NEXT Next
VIEW View0
INVARIANTS Refines PadOK EmptyOK
ACTION_CONSTRAINT Emit
CHECK_DEADLOCK FALSE
