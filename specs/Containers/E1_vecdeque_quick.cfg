CONSTANTS
  Vals = {1}
  MaxLen = 4
  Reserves = {0, 3, 5}
  TmpReserves = {0, 3}
  TmpBack = {0, 2}
  TmpFront = {0, 2}
INIT Init
NEXT Next
VIEW View0
INVARIANTS Refines NoJunk RingOK
PROPERTY CapMoves
ACTION_CONSTRAINT Emit
CHECK_DEADLOCK FALSE
