CONSTANTS
  MaxBlock = 16
  AlignB = 8
  ChunkReq = 36
  Sizes = {0, 8, 9, 16, 24}
  Aligns = {1, 8, 16}
  MaxLive = 2
  MaxChunks = 3
INIT Init
NEXT Next
VIEW View0
INVARIANTS Disjoint NoAlias InChunk Served Accounting ClassZeroUnused
PROPERTIES Reuse ChunkOnlyWhenNeeded
ACTION_CONSTRAINT Emit
CHECK_DEADLOCK FALSE
