CONSTANTS
  MaxBlock = 16
  AlignB = 8
  ChunkReq = 24
  Sizes = {8, 16}
  Aligns = {8}
  MaxLive = 3
  MaxChunks = 2
INIT Init
NEXT Next
VIEW View0
INVARIANTS Disjoint NoAlias InChunk Served Accounting ClassZeroUnused
PROPERTIES Reuse ChunkOnlyWhenNeeded
ACTION_CONSTRAINT Emit
CHECK_DEADLOCK FALSE
