INIT Init
NEXT Next
INVARIANT DocOK
CHECK_DEADLOCK FALSE
