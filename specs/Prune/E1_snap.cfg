CONSTANTS
  KEEP = 288
  Base = 110
  Cap = 200
  MaxTip = 1000
  MaxSteps = 12
  Scripts <- SnapScripts
INIT ScriptInit
NEXT Next
VIEW View
ACTION_CONSTRAINT Emit
INVARIANTS FileInfoCovers CursorsSeparate
PROPERTIES PropSnapshot
CHECK_DEADLOCK FALSE
