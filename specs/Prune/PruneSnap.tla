---- MODULE PruneSnap ----
(***************************************************************************)
(* C19, the assumeutxo clause: "pruning never deletes ... any block that    *)
(* background validation of a snapshot has not yet validated".              *)
(*                                                                         *)
(* After a snapshot at height Base is activated there are two chainstates   *)
(* and two block-file cursors (BlockManager::BlockfileTypeForHeight):       *)
(* blocks at or above the snapshot height go to the ASSUMED cursor's file,   *)
(* blocks below it to the NORMAL cursor's file.  The snapshot chainstate     *)
(* prunes only files that start above its base (Chainstate::GetPruneRange:   *)
(* prune_start = base + 1, tested against the file's nHeightFirst), so the   *)
(* snapshot base block - stored in an ASSUMED file once it is downloaded -   *)
(* is protected by nothing but the nHeightFirst of its file.  File infos are *)
(* maintained as the code does (CBlockFileInfo::AddBlock), and blocks may be *)
(* stored out of height order (Swap).  Layout is abstract here: Cap blocks   *)
(* per file.                                                                *)
(***************************************************************************)
EXTENDS Integers, Sequences, FiniteSets, TLC, VF
CONSTANTS KEEP, Base, Cap, MaxTip, MaxSteps, Scripts

Min(a, b) == IF a < b THEN a ELSE b
Max(a, b) == IF a > b THEN a ELSE b
FileZero == [nb |-> 0, hf |-> 0, hl |-> 0]
\* CBlockFileInfo::AddBlock
AddBlock(fi, h) == [nb |-> fi.nb + 1,
                    hf |-> IF fi.nb = 0 \/ fi.hf > h THEN h ELSE fi.hf,
                    hl |-> IF h > fi.hl THEN h ELSE fi.hl]

VARIABLES files,     \* file number + 1 -> [nb, hf, hl]
          held,      \* file number + 1 -> set of heights whose block data is in that file (BLOCK_HAVE_DATA)
          curN, curA,\* file number of the NORMAL / ASSUMED cursor (-1: none yet)
          tip,       \* height of the snapshot chainstate
          bg,        \* height of the background chainstate (validated so far)
          gone,      \* pruned file numbers
          ev,        \* prune events of the last step
          steps, sc, lastAct
vars == <<files, held, curN, curA, tip, bg, gone, ev, steps, sc, lastAct>>

\* right after ActivateSnapshot on a node that had synced to Base and forgot its block data: one old NORMAL file describing 0..Base
Init == /\ files = <<[nb |-> Base + 1, hf |-> 0, hl |-> Base]>> /\ held = <<{}>> /\ curN = 0 /\ curA = -1
        /\ tip = Base /\ bg = 0 /\ gone = {} /\ ev = <<>> /\ steps = 0 /\ sc \in 0..Len(Scripts) /\ lastAct = <<"init">>

ScriptInit == Init /\ sc >= 1
PlainInit == Init /\ sc = 0
\* FindNextBlockPos + AddBlock for one block: returns [files, held, curN, curA]
Place(F, H, cn, ca, h) ==
  LET assumed == h >= Base                                       \* BlockfileTypeForHeight
      c == IF assumed THEN ca ELSE cn
      roll == c = -1 \/ F[c + 1].nb >= Cap                         \* no cursor yet, or the file is full: the next unclaimed file number
      f == IF roll THEN Len(F) ELSE c
      F1 == IF roll THEN Append(F, FileZero) ELSE F
      H1 == IF roll THEN Append(H, {}) ELSE H
  IN [files |-> [F1 EXCEPT ![f + 1] = AddBlock(F1[f + 1], h)], held |-> [H1 EXCEPT ![f + 1] = H1[f + 1] \cup {h}],
      curN |-> IF assumed THEN cn ELSE f, curA |-> IF assumed THEN f ELSE ca]
RECURSIVE PlaceAll(_, _)
PlaceAll(r, hs) == IF hs = <<>> THEN r ELSE PlaceAll(Place(r.files, r.held, r.curN, r.curA, Head(hs)), Tail(hs))
Now == [files |-> files, held |-> held, curN |-> curN, curA |-> curA]
Set(r) == files' = r.files /\ held' = r.held /\ curN' = r.curN /\ curA' = r.curA
Step(a) == steps' = steps + 1 /\ lastAct' = a /\ UNCHANGED sc

\* n blocks on the snapshot chain, in order
Mine(n) == /\ tip + n <= MaxTip /\ Set(PlaceAll(Now, [i \in 1..n |-> tip + i])) /\ tip' = tip + n
           /\ UNCHANGED <<bg, gone>> /\ ev' = <<>> /\ Step(<<"mine", n>>)
\* headers of the next two blocks, body of the second, then body of the first
Swap == /\ tip + 2 <= MaxTip /\ Set(PlaceAll(Now, <<tip + 2, tip + 1>>)) /\ tip' = tip + 2
        /\ UNCHANGED <<bg, gone>> /\ ev' = <<>> /\ Step(<<"swap">>)
\* the snapshot base block is downloaded for the background chainstate
HasData(h) == \E f \in 1..Len(held) : h \in held[f]
DeliverBase == /\ ~HasData(Base) /\ Set(PlaceAll(Now, <<Base>>))
               /\ UNCHANGED <<tip, bg, gone>> /\ ev' = <<>> /\ Step(<<"base">>)
\* the next historical block is downloaded and connected by the background chainstate
DeliverHist == /\ bg + 1 < Base /\ ~HasData(bg + 1) /\ Set(PlaceAll(Now, <<bg + 1>>)) /\ bg' = bg + 1
               /\ UNCHANGED <<tip, gone>> /\ ev' = <<>> /\ Step(<<"hist">>)
\* PruneBlockFilesManual(h) on the snapshot chainstate: GetPruneRange = [Base + 1, min(h, tip - KEEP)]
Eligible(fi, lo, hi) == ~(fi.nb = 0 \/ fi.hl > hi \/ fi.hf < lo)
Prune(h) == LET hi == Min(h, Max(0, tip - KEEP))
                P == {f \in 0..(Len(files) - 1) : Eligible(files[f + 1], Base + 1, hi)}
            IN /\ files' = [f \in 1..Len(files) |-> IF (f - 1) \in P THEN FileZero ELSE files[f]]
               /\ held' = [f \in 1..Len(held) |-> IF (f - 1) \in P THEN {} ELSE held[f]]
               /\ gone' = gone \cup P
               /\ ev' = <<[tip |-> tip, bg |-> bg, pruned |-> P, heights |-> held]>>
               /\ UNCHANGED <<curN, curA, tip, bg>> /\ Step(<<"prune", h>>)

Do(a) == CASE a[1] = "mine" -> Mine(a[2]) [] a[1] = "swap" -> Swap [] a[1] = "base" -> DeliverBase
           [] a[1] = "hist" -> DeliverHist [] a[1] = "prune" -> Prune(a[2])
Next == /\ steps < MaxSteps
        /\ IF sc = 0
           THEN \/ \E n \in {1, 2} : Mine(n)
                \/ Swap \/ DeliverBase \/ DeliverHist
                \/ \E h \in {tip - KEEP - 1, tip - KEEP, tip} : h >= 1 /\ Prune(h)
           ELSE steps < Len(Scripts[sc]) /\ Do(Scripts[sc][steps + 1])

\* ---- the property
\* a prune on behalf of the snapshot chainstate removed no block the background chainstate still needs (at or below the base, not yet
\* validated by it), and none within the last KEEP blocks of the snapshot chain
EvKeepsBackground(e) == \A f \in e.pruned : \A x \in e.heights[f + 1] : ~(x <= Base /\ x > e.bg)
EvKeepsRecent(e) == \A f \in e.pruned : \A x \in e.heights[f + 1] : x <= e.tip - KEEP
PropSnapshot == [][\A i \in 1..Len(ev') : EvKeepsBackground(ev'[i]) /\ EvKeepsRecent(ev'[i])]_vars
\* the file infos, maintained by AddBlock in storage order, cover every stored block
FileInfoCovers == \A f \in 1..Len(files) : \A x \in held[f] : files[f].hf <= x /\ x <= files[f].hl
\* the two kinds of blocks never share a file
CursorsSeparate == \A f \in 2..Len(files) : (\A x \in held[f] : x >= Base) \/ (\A x \in held[f] : x < Base)

View == <<files, held, curN, curA, tip, bg, gone, steps, sc>>
Emit == VFEdgeK(<<sc, steps>>, [tip |-> tip, bg |-> bg], lastAct', <<>>, <<sc, steps'>>, [tip |-> tip', bg |-> bg', gone |-> gone'])
====
