CONSTANTS
  KEEP = 3
  BUF = 1
  FileMax = 12
  Fast = TRUE
  BlkChunk = 8
  UndoChunk = 4
  SizeOf <- SmallSizeOf
  UndoRec = 1
  GenesisRec = 3
  ManualOnly = FALSE
  Target = 30
  AutoBuffer = 6
  AvgBlock = 4
  AfterHeight = 2
  LockNames = {"a"}
  ConnectChoices <- SmallConnect
  SwapChoices <- SmallSwap
  ReorgChoices <- SmallReorg
  MaxTip = 9
  MaxSteps = 6
  Scripts <- CornerScripts
INIT PlainInit
NEXT PlainNext
VIEW View
INVARIANTS FileInfoExact FileInfoCovers CursorAlive RecentHaveData
PROPERTIES PropRecentX PropLockedX PropBuffer PropAuto
CHECK_DEADLOCK FALSE
