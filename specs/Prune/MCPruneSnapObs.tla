---- MODULE MCPruneSnapObs ----
EXTENDS PruneSnapObs
NoScripts == <<>>
====
