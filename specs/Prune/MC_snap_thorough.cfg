CONSTANTS
  KEEP = 2
  Base = 3
  Cap = 3
  MaxTip = 14
  MaxSteps = 10
  Scripts <- NoScripts
INIT PlainInit
NEXT Next
VIEW View
INVARIANTS FileInfoCovers CursorsSeparate
PROPERTIES PropSnapshot
CHECK_DEADLOCK FALSE
