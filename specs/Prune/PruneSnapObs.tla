---- MODULE PruneSnapObs ----
(* INV-mode verdicts for the assumeutxo clause of C19: every line of env OBS is what the harness saw on the real snapshot node after a    *)
(* step: {kind: "files" | "prune", tip, bg, base, pruned: [file...], heights: [[h...] per file] (blocks with data; for a prune: before  *)
(* it), after: [{size, nb, hf, hl, disk} per file]}.  TLC evaluates the clauses of PruneSnap on it.                                      *)
EXTENDS PruneSnap, Json, IOUtils
ObsLines == ndJsonDeserialize(IOEnv.OBS)
VARIABLE idx
ToSet(q) == {q[i] : i \in 1..Len(q)}
L == ObsLines[idx]
E == [tip |-> L.tip, bg |-> L.bg, pruned |-> ToSet(L.pruned), heights |-> [f \in 1..Len(L.heights) |-> ToSet(L.heights[f])]]
InitObs == /\ idx \in 1..Len(ObsLines)
           /\ files = <<>> /\ held = <<>> /\ curN = 0 /\ curA = -1 /\ tip = 0 /\ bg = 0 /\ gone = {} /\ ev = <<>> /\ steps = 0 /\ sc = 0
           /\ lastAct = <<"observed", idx>>
Stutter == UNCHANGED <<vars, idx>>
\* no block the background chainstate still needs (height <= base, above what it has validated) was in a pruned file
ObsSnapKeepsBackground == \A f \in E.pruned : \A x \in E.heights[f + 1] : ~(x <= L.base /\ x > L.bg)
ObsSnapKeepsRecent == EvKeepsRecent(E)
\* every file info covers the blocks that have their data in the file (for a prune line: the files that were not pruned)
ObsSnapFileInfoCovers == \A f \in 1..Len(L.after) : (L.after[f].size > 0 /\ ~((f - 1) \in E.pruned)) =>
                            \A x \in E.heights[f] : L.after[f].hf <= x /\ x <= L.after[f].hl
====
