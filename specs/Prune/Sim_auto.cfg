CONSTANTS
  KEEP = 288
  BUF = 10
  FileMax = 65536
  Fast = TRUE
  BlkChunk = 16384
  UndoChunk = 1048576
  SizeOf <- RealSizeOf
  UndoRec = 41
  GenesisRec = 293
  ManualOnly = FALSE
  Target = 576716800
  AutoBuffer = 17825792
  AvgBlock = 1000000
  AfterHeight = 100
  LockNames = {"a", "b"}
  ConnectChoices <- AutoConnect
  SwapChoices <- NoSwap
  ReorgChoices <- AutoReorg
  MaxTip = 640
  MaxSteps = 12
  Scripts <- CornerScripts
INIT PlainInit
NEXT PlainSimNext
VIEW View
ACTION_CONSTRAINT Emit
INVARIANTS FileInfoExact FileInfoCovers CursorAlive RecentHaveData
PROPERTIES PropRecentX PropLockedX PropBuffer PropAuto
CHECK_DEADLOCK FALSE
