---- MODULE MCPruneObs ----
EXTENDS PruneObs
RealSizeOf == [s |-> 308, m |-> 4008, l |-> 30008, x |-> 70008, M |-> 1000008]
RealConnect == {}
RealReorg == {}
RealSwap == {}
====
