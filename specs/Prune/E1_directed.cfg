CONSTANTS
  KEEP = 288
  BUF = 10
  FileMax = 65536
  Fast = TRUE
  BlkChunk = 16384
  UndoChunk = 1048576
  SizeOf <- RealSizeOf
  UndoRec = 41
  GenesisRec = 293
  ManualOnly = TRUE
  Target = 576716800
  AutoBuffer = 17825792
  AvgBlock = 1000000
  AfterHeight = 100
  LockNames = {"a", "b"}
  ConnectChoices <- RealConnect
  SwapChoices <- RealSwap
  ReorgChoices <- RealReorg
  MaxTip = 700
  MaxSteps = 20
  Scripts <- AllScripts
INIT ScriptInit
NEXT ScriptNext
VIEW ScriptView
ACTION_CONSTRAINT ScriptEmit
INVARIANTS FileInfoExact FileInfoCovers CursorAlive RecentHaveData
PROPERTIES PropRecentX PropLockedX PropBuffer PropAuto
CHECK_DEADLOCK FALSE
