---- MODULE Prune ----
(***************************************************************************)
(* C19: "Pruning never deletes data the node still needs".                 *)
(*                                                                         *)
(* The block-file layout (BlockManager::FindNextBlockPos / FindUndoPos /    *)
(* CBlockFileInfo::AddBlock), the prune section of                         *)
(* Chainstate::FlushStateToDisk (prune locks, PRUNE_LOCK_BUFFER),           *)
(* Chainstate::GetPruneRange (MIN_BLOCKS_TO_KEEP), FindFilesToPruneManual,  *)
(* FindFilesToPrune (target, buffer), PruneOneBlockFile and the way         *)
(* DisconnectTip moves prune locks back, transcribed as functions on one     *)
(* state record.  Every call of the prune section appends an event to `ev`; *)
(* the property is an action property over the events of each step.         *)
(* Actions are macro steps (Connect(n, c) = n blocks of size class c) so     *)
(* that chains longer than MIN_BLOCKS_TO_KEEP are a few steps away.          *)
(***************************************************************************)
EXTENDS Integers, Sequences, FiniteSets, TLC, VF
CONSTANTS KEEP,          \* MIN_BLOCKS_TO_KEEP (288)
          BUF,           \* PRUNE_LOCK_BUFFER (10)
          FileMax,       \* MAX_BLOCKFILE_SIZE, or 65536 in fast-prune mode
          Fast,          \* fast-prune mode: a block that does not fit gets a file of its own size
          BlkChunk, UndoChunk,     \* pre-allocation chunk sizes (an allocation sets m_check_for_pruning)
          SizeOf,        \* size class -> bytes the block occupies in its file (serialized size + 8)
          UndoRec,       \* bytes one undo record of these blocks occupies (1 + 40)
          GenesisRec,    \* bytes the genesis block occupies in file 0
          ManualOnly,    \* TRUE: prune target = PRUNE_TARGET_MANUAL (automatic pruning never finds anything)
          Target,        \* effective automatic target: max(MIN_DISK_SPACE_FOR_BLOCK_FILES, -prune)
          AutoBuffer,    \* BLOCKFILE_CHUNK_SIZE + UNDOFILE_CHUNK_SIZE
          AvgBlock,      \* 1,000,000: extra buffer per block still to download while in IBD
          AfterHeight,   \* CChainParams::PruneAfterHeight
          LockNames,
          ConnectChoices,   \* set of <<n, class>> offered to Connect
          ReorgChoices,     \* set of <<depth, class>> offered to Reorg
          SwapChoices,      \* set of classes offered to Swap (two blocks delivered in swapped order)
          MaxTip, MaxSteps

Min(a, b) == IF a < b THEN a ELSE b
Max(a, b) == IF a > b THEN a ELSE b
CeilDiv(a, b) == (a + b - 1) \div b
NoLock == -1
FileZero == [size |-> 0, undo |-> 0, nb |-> 0, hf |-> 0, hl |-> 0]        \* CBlockFileInfo{}

\* ---------------------------------------------------------------- the state record
\* blocks : id -> [h, f]        every block ever stored besides genesis, in storage order (f = file number at storage time)
\* chain  : height -> id        the active chain above genesis
\* files  : file number + 1 -> CBlockFileInfo fields
\* ids    : file number + 1 -> [lo, hi]  ids stored in that file (contiguous because storage is sequential); <<1, 0>> = none
\* conn   : set of ids whose undo data has been written
\* gone   : file number + 1 -> BOOLEAN   pruned (file info reset, blk/rev files unlinked)
\* locks  : name -> height_first or NoLock
\* flag   : m_check_for_pruning;  bestH : height of the best header
InitS == [blocks |-> <<>>, chain |-> <<>>,
          files |-> <<[size |-> GenesisRec, undo |-> 0, nb |-> 1, hf |-> 0, hl |-> 0]>>,
          ids |-> <<[lo |-> 1, hi |-> 0]>>, conn |-> {}, gone |-> <<FALSE>>,
          locks |-> [n \in LockNames |-> NoLock], flag |-> FALSE, bestH |-> 0]
TipH(S) == Len(S.chain)
NFiles(S) == Len(S.files)
Cur(S) == NFiles(S) - 1                 \* the cursor's file number (single chainstate: always the highest file)
RECURSIVE SumFiles(_, _)
SumFiles(fs, i) == IF i > Len(fs) THEN 0 ELSE fs[i].size + fs[i].undo + SumFiles(fs, i + 1)
Usage(S) == SumFiles(S.files, 1)        \* CalculateCurrentUsage
ActiveLocks(S) == {S.locks[n] : n \in LockNames} \ {NoLock}
\* heights of the blocks a file holds (genesis lives in file 0)
HeightsIn(S, f) == {S.blocks[i].h : i \in S.ids[f + 1].lo .. S.ids[f + 1].hi} \cup (IF f = 0 THEN {0} ELSE {})

\* ---------------------------------------------------------------- the prune section of FlushStateToDisk
\* last_prune: the tip height, lowered by every prune lock to height_first - PRUNE_LOCK_BUFFER - 1, but never below 1
SetMin(T) == CHOOSE x \in T : \A y \in T : x <= y
LastPrune(S) == IF ActiveLocks(S) = {} THEN TipH(S) ELSE Max(1, Min(TipH(S), SetMin(ActiveLocks(S)) - BUF - 1))
\* Chainstate::GetPruneRange (no snapshot)
PruneEnd(S, x) == IF TipH(S) <= 0 THEN 0 ELSE Min(x, Max(0, TipH(S) - KEEP))
InRange(fi, hi) == ~(fi.size = 0 \/ fi.hl > hi \/ fi.hf < 0)
PruneOne(S, f) == [S EXCEPT !.files[f + 1] = FileZero, !.gone[f + 1] = TRUE]
Event(kind, S, req, hi, prunedSet, S2, target, buffer) ==
  [kind |-> kind, tip |-> TipH(S), locks |-> ActiveLocks(S), req |-> req, hi |-> hi, before |-> S.files,
   heights |-> [f \in 1..NFiles(S) |-> IF (f - 1) \in prunedSet THEN HeightsIn(S, f - 1) ELSE {}],        \* (only looked at for pruned files)
   pruned |-> prunedSet, usage0 |-> Usage(S), usage1 |-> Usage(S2), target |-> target, buffer |-> buffer, after |-> S2.files]

\* FindFilesToPruneManual(x)
RECURSIVE ManualLoop(_, _, _, _)
ManualLoop(S, f, hi, acc) ==
  IF f >= NFiles(S) THEN [s |-> S, p |-> acc]
  ELSE IF InRange(S.files[f + 1], hi) THEN ManualLoop(PruneOne(S, f), f + 1, hi, acc \cup {f}) ELSE ManualLoop(S, f + 1, hi, acc)
\* FindFilesToPrune(last_prune): files in number order until usage + buffer < target
RECURSIVE AutoLoop(_, _, _, _, _, _, _)
AutoLoop(S, f, hi, usage, buffer, target, acc) ==
  IF f >= NFiles(S) THEN [s |-> S, p |-> acc]
  ELSE LET fi == S.files[f + 1] IN
    IF fi.size = 0 THEN AutoLoop(S, f + 1, hi, usage, buffer, target, acc)
    ELSE IF usage + buffer < target THEN [s |-> S, p |-> acc]
    ELSE IF ~InRange(fi, hi) THEN AutoLoop(S, f + 1, hi, usage, buffer, target, acc)
    ELSE AutoLoop(PruneOne(S, f), f + 1, hi, usage - (fi.size + fi.undo), buffer, target, acc \cup {f})

\* returns [s, ev]: the new state and the (possibly empty) sequence of events
PruneCheck(S, manualH) ==
  IF ~(S.flag \/ manualH > 0) THEN [s |-> S, ev |-> <<>>]
  ELSE IF manualH > 0 THEN
       LET x == Min(LastPrune(S), manualH) hi == PruneEnd(S, x) r == ManualLoop(S, 0, hi, {})
       IN [s |-> r.s, ev |-> <<Event("manual", S, manualH, hi, r.p, r.s, 0, 0)>>]
  ELSE LET S1 == [S EXCEPT !.flag = FALSE] IN
       IF ManualOnly \/ TipH(S) <= AfterHeight THEN [s |-> S1, ev |-> <<>>]
       ELSE LET hi == PruneEnd(S, LastPrune(S))
                buffer == AutoBuffer + (IF S.bestH > TipH(S) THEN AvgBlock * (S.bestH - TipH(S)) ELSE 0)     \* the node is in IBD throughout
                r == IF Usage(S) + AutoBuffer >= Target THEN AutoLoop(S1, 0, hi, Usage(S), buffer, Target, {}) ELSE [s |-> S1, p |-> {}]
            IN [s |-> r.s, ev |-> <<Event("auto", S, 0, hi, r.p, r.s, Target, buffer)>>]

\* ---------------------------------------------------------------- storing, connecting, disconnecting one block
\* AcceptBlock: FindNextBlockPos + AddBlock, then FlushStateToDisk(NONE)
StoreBlock(S, h, c) ==
  LET add == SizeOf[c]
      maxsz == IF Fast THEN (IF add >= FileMax THEN add + 1 ELSE FileMax) ELSE FileMax
      roll == S.files[Cur(S) + 1].size + add >= maxsz
      files1 == IF roll THEN Append(S.files, FileZero) ELSE S.files
      ids1 == IF roll THEN Append(S.ids, [lo |-> Len(S.blocks) + 1, hi |-> Len(S.blocks)]) ELSE S.ids
      gone1 == IF roll THEN Append(S.gone, FALSE) ELSE S.gone
      nf == Len(files1)                   \* index of the file written to
      fi == files1[nf]
      pos == fi.size
      alloc == CeilDiv(pos + add, BlkChunk) > CeilDiv(pos, BlkChunk)
      fi2 == [fi EXCEPT !.nb = fi.nb + 1, !.size = fi.size + add,
                        !.hf = IF fi.nb = 0 \/ fi.hf > h THEN h ELSE fi.hf,
                        !.hl = IF h > fi.hl THEN h ELSE fi.hl]
      id == Len(S.blocks) + 1
      S1 == [S EXCEPT !.blocks = Append(S.blocks, [h |-> h, f |-> nf - 1]), !.files = [files1 EXCEPT ![nf] = fi2],
                      !.ids = [ids1 EXCEPT ![nf].hi = id], !.gone = gone1,
                      !.flag = S.flag \/ alloc, !.bestH = Max(S.bestH, h)]
  IN PruneCheck(S1, 0)
\* ConnectTip: WriteBlockUndo (FindUndoPos), chain grows, FlushStateToDisk(IF_NEEDED)
ConnectTip(S, id) ==
  LET f == S.blocks[id].f
      fi == S.files[f + 1]
      alloc == CeilDiv(fi.undo + UndoRec, UndoChunk) > CeilDiv(fi.undo, UndoChunk)
      S1 == [S EXCEPT !.files[f + 1].undo = fi.undo + UndoRec, !.flag = S.flag \/ alloc, !.conn = S.conn \cup {id}, !.chain = Append(S.chain, id)]
  IN PruneCheck(S1, 0)
\* DisconnectTip: locks at or above the disconnected block move back to its parent, FlushStateToDisk(IF_NEEDED) (still at the old tip), SetTip
DisconnectTip(S) ==
  LET mx == TipH(S) - 1
      S1 == [S EXCEPT !.locks = [n \in LockNames |-> IF S.locks[n] > mx THEN mx ELSE S.locks[n]]]
      r == PruneCheck(S1, 0)
  IN [s |-> [r.s EXCEPT !.chain = SubSeq(r.s.chain, 1, mx)], ev |-> r.ev]

Then(r, F(_)) == LET r2 == F(r.s) IN [s |-> r2.s, ev |-> r.ev \o r2.ev]
RECURSIVE ConnectN(_, _, _)
ConnectN(r, n, c) ==
  IF n = 0 THEN r
  ELSE LET r1 == Then(r, LAMBDA S : StoreBlock(S, TipH(S) + 1, c))
           r2 == Then(r1, LAMBDA S : ConnectTip(S, Len(S.blocks)))
           r3 == Then(r2, LAMBDA S : PruneCheck(S, 0))                  \* FlushStateToDisk(PERIODIC) at the end of ActivateBestChain
       IN ConnectN(r3, n - 1, c)
RECURSIVE StoreFork(_, _, _, _), DisconnectN(_, _), ConnectIds(_, _, _)
StoreFork(r, h, k, c) == IF k = 0 THEN r ELSE StoreFork(Then(r, LAMBDA S : StoreBlock(S, h, c)), h + 1, k - 1, c)
DisconnectN(r, d) == IF d = 0 THEN r ELSE DisconnectN(Then(r, DisconnectTip), d - 1)
ConnectIds(r, id, k) == IF k = 0 THEN r ELSE ConnectIds(Then(r, LAMBDA S : ConnectTip(S, id)), id + 1, k - 1)
\* a fork of d + 1 blocks from height tip - d: stored one by one, the last one triggers d disconnects and d + 1 connects
ReorgOp(S, d, c) ==
  LET first == Len(S.blocks) + 1
      r1 == StoreFork([s |-> S, ev |-> <<>>], TipH(S) - d + 1, d + 1, c)
      r2 == DisconnectN(r1, d)
      r3 == ConnectIds(r2, first, d + 1)
  IN Then(r3, LAMBDA T : PruneCheck(T, 0))

\* headers-first download out of order: the headers of the next two blocks, then the body of the second, then the body of the first. The
\* second is stored (and its file info updated) before the first: within a file, blocks are not in height order.
SwapOp(S, c) ==
  LET h == TipH(S)
      first == Len(S.blocks) + 1
      r1 == StoreBlock([S EXCEPT !.bestH = Max(S.bestH, h + 2)], h + 2, c)
      r2 == Then(r1, LAMBDA T : PruneCheck(T, 0))                      \* ActivateBestChain finds nothing to connect; FlushStateToDisk(PERIODIC)
      r3 == Then(r2, LAMBDA T : StoreBlock(T, h + 1, c))
      r4 == Then(r3, LAMBDA T : ConnectTip(T, first + 1))
      r5 == Then(r4, LAMBDA T : ConnectTip(T, first))
  IN Then(r5, LAMBDA T : PruneCheck(T, 0))

\* ---------------------------------------------------------------- specification
VARIABLES st, ev, steps, lastAct, lastRes
vars == <<st, ev, steps, lastAct, lastRes>>
Init == st = InitS /\ ev = <<>> /\ steps = 0 /\ lastAct = <<"init">> /\ lastRes = <<>>

Apply(r, act) == /\ st' = r.s /\ ev' = r.ev /\ steps' = steps + 1 /\ lastAct' = act
                 /\ lastRes' = [i \in 1..Len(r.ev) |-> [kind |-> r.ev[i].kind, pruned |-> r.ev[i].pruned]]
Connect(n, c) == /\ TipH(st) + n <= MaxTip
                 /\ Apply(ConnectN([s |-> st, ev |-> <<>>], n, c), <<"connect", n, c>>)
Reorg(d, c) == /\ d >= 1 /\ d <= TipH(st) /\ TipH(st) + 1 <= MaxTip
               /\ Apply(ReorgOp(st, d, c), <<"reorg", d, c>>)
Swap(c) == /\ TipH(st) + 2 <= MaxTip
           /\ Apply(SwapOp(st, c), <<"swap", c>>)
\* heights worth trying: around every boundary the rules have
FileEdges(S) == UNION {{S.files[f].hl - 1, S.files[f].hl, S.files[f].hl + 1} : f \in {g \in 1..NFiles(S) : S.files[g].size > 0}}
ManualHeights(S) == ({1, TipH(S) - KEEP - 1, TipH(S) - KEEP, TipH(S) - KEEP + 1, TipH(S)} \cup FileEdges(S)) \cap 1..(TipH(S) + 1)
ManualPrune(h) == /\ TipH(st) >= 1
                  /\ Apply(PruneCheck(st, h), <<"manual", h>>)
AutoPrune == Apply(PruneCheck([st EXCEPT !.flag = TRUE], 0), <<"auto">>)                 \* Chainstate::PruneAndFlush
LockHeights(S) == ({0, 1, BUF, BUF + 1, BUF + 2, TipH(S) - KEEP, TipH(S)}
                   \cup UNION {{S.files[f].hl + BUF, S.files[f].hl + BUF + 1, S.files[f].hl + BUF + 2} : f \in {g \in 1..NFiles(S) : S.files[g].size > 0}})
                  \cap 0..(TipH(S) + 1)
UpdateLock(n, h) == /\ st.locks[n] # h
                    /\ Apply([s |-> [st EXCEPT !.locks[n] = h], ev |-> <<>>], <<"lock", n, h>>)
DeleteLock(n) == /\ st.locks[n] # NoLock
                 /\ Apply([s |-> [st EXCEPT !.locks[n] = NoLock], ev |-> <<>>], <<"unlock", n>>)
Next == /\ steps < MaxSteps
        /\ \/ \E p \in ConnectChoices : Connect(p[1], p[2])
           \/ \E p \in ReorgChoices : Reorg(p[1], p[2])
           \/ \E c \in SwapChoices : Swap(c)
           \/ \E h \in ManualHeights(st) : ManualPrune(h)
           \/ AutoPrune
           \/ \E n \in LockNames : \E h \in LockHeights(st) : UpdateLock(n, h)
           \/ \E n \in LockNames : DeleteLock(n)
Spec == Init /\ [][Next]_vars
\* simulation (engine E2): one random parameter per action, so that a state has a handful of successors instead of hundreds;
\* the first two steps build a chain
Pick(T) == IF T = {} THEN {} ELSE {RandomElement(T)}
SimNext == /\ steps < MaxSteps
           /\ IF steps < 2 THEN \E p \in Pick({q \in ConnectChoices : q[1] >= 100}) : Connect(p[1], p[2])
              ELSE \/ \E p \in Pick(ConnectChoices) : Connect(p[1], p[2])
                   \/ \E p \in Pick(ReorgChoices) : Reorg(p[1], p[2])
                   \/ \E c \in Pick(SwapChoices) : Swap(c)
                   \/ \E h \in Pick(ManualHeights(st)) : ManualPrune(h)
                   \/ \E h \in Pick(ManualHeights(st) \cap ((TipH(st) - KEEP - 40)..(TipH(st) - KEEP + 1))) : ManualPrune(h)
                   \/ AutoPrune
                   \/ \E n \in Pick(LockNames) : \E h \in Pick(LockHeights(st)) : UpdateLock(n, h)
                   \/ \E n \in Pick(LockNames) : DeleteLock(n)

\* ---------------------------------------------------------------- the property (action property over the events of a step)
\* an event must not have pruned a file that holds ...
EvKeepsRecent(e) == \A f \in e.pruned : \A x \in e.heights[f + 1] : x <= e.tip - KEEP                 \* a block within the last 288 of the tip
EvKeepsLocked(e) == \A f \in e.pruned : \A x \in e.heights[f + 1] : \A l \in e.locks : x < l           \* a block at or above a prune lock
\* the buffer below a lock, as coded: height_first - PRUNE_LOCK_BUFFER - 1 is the highest prunable height (but height 1 always is)
EvKeepsBuffer(e) == \A f \in e.pruned : \A x \in e.heights[f + 1] : \A l \in e.locks : x <= Max(1, l - BUF - 1)
\* automatic pruning: afterwards usage is under the target or no eligible file is left
EvEligibleLeft(e) == \E f \in 1..Len(e.after) : InRange(e.after[f], e.hi)
EvAutoPost(e) == e.kind = "auto" => (e.usage1 < e.target \/ ~EvEligibleLeft(e))
\* ... and it only removes something when the usage (plus the allocation buffer) had reached the target
EvAutoPre(e) == (e.kind = "auto" /\ e.pruned # {}) => e.usage0 + AutoBuffer >= e.target
\* The two clamps of the code, max(0, tip - KEEP) in GetPruneRange and max(1, lock - BUF - 1) in FlushStateToDisk, let a file go that holds
\* nothing above height 0 (resp. 1) even when the first two clauses forbid it (a genuine corner case of the implementation, reported as
\* a known finding). The X clauses are the statement without that corner; they are what TLC proves of this specification.
CornerFile(e, f, k) == \A x \in e.heights[f + 1] : x <= k
EvKeepsRecentX(e) == \A f \in e.pruned : CornerFile(e, f, 0) \/ \A x \in e.heights[f + 1] : x <= e.tip - KEEP
EvKeepsLockedX(e) == \A f \in e.pruned : CornerFile(e, f, 1) \/ \A x \in e.heights[f + 1] : \A l \in e.locks : x < l
EventOK(e) == EvKeepsRecent(e) /\ EvKeepsLocked(e) /\ EvKeepsBuffer(e) /\ EvAutoPost(e) /\ EvAutoPre(e)
StepOK == \A i \in 1..Len(ev') : EventOK(ev'[i])
NeverPrunesNeeded == [][StepOK]_vars
\* the clauses one by one (so that TLC names the one that fails)
PropRecent == [][\A i \in 1..Len(ev') : EvKeepsRecent(ev'[i])]_vars
PropLocked == [][\A i \in 1..Len(ev') : EvKeepsLocked(ev'[i])]_vars
PropBuffer == [][\A i \in 1..Len(ev') : EvKeepsBuffer(ev'[i])]_vars
PropRecentX == [][\A i \in 1..Len(ev') : EvKeepsRecentX(ev'[i])]_vars
PropLockedX == [][\A i \in 1..Len(ev') : EvKeepsLockedX(ev'[i])]_vars
PropAuto   == [][\A i \in 1..Len(ev') : EvAutoPost(ev'[i]) /\ EvAutoPre(ev'[i])]_vars

\* state invariants: the file info describes the blocks of the file exactly; pruned files are empty; the cursor file is never pruned
FileInfoExact == \A f \in 1..NFiles(st) :
   IF st.gone[f] THEN st.files[f] = FileZero
   ELSE LET H == HeightsIn(st, f - 1) IN
        /\ st.files[f].nb = Cardinality({i \in st.ids[f].lo .. st.ids[f].hi : TRUE}) + (IF f = 1 THEN 1 ELSE 0)
        /\ (H # {} => st.files[f].hf = SetMin(H) /\ \A x \in H : x <= st.files[f].hl /\ st.files[f].hl \in H)
\* what the prune rules rely on: the height range in a file's info covers every block stored in the file
FileInfoCovers == \A f \in 1..NFiles(st) : ~st.gone[f] => \A x \in HeightsIn(st, f - 1) : st.files[f].hf <= x /\ x <= st.files[f].hl
CursorAlive == ~st.gone[NFiles(st)]
\* a block of the last KEEP blocks of the active chain always has its data
RecentHaveData == \A h \in 2..TipH(st) : h > TipH(st) - KEEP => ~st.gone[st.blocks[st.chain[h]].f + 1]

\* ---------------------------------------------------------------- projection for the replay
FStat(S, f) == LET r == S.ids[f] idset == r.lo .. r.hi IN
               [gone |-> S.gone[f], data |-> IF S.gone[f] THEN 0 ELSE Cardinality(idset),
                undo |-> IF S.gone[f] THEN 0 ELSE Cardinality(idset \cap S.conn)]
Proj(S) == [tip |-> TipH(S), nblocks |-> Len(S.blocks), files |-> S.files, fstat |-> [f \in 1..NFiles(S) |-> FStat(S, f)],
            locks |-> [n \in LockNames |-> S.locks[n]], usage |-> Usage(S)]
View == <<st, steps>>
\* the projection hides m_check_for_pruning and the best-header height: edges are keyed by the full state
Key(S, n) == [p |-> Proj(S), flag |-> S.flag, best |-> S.bestH, n |-> n]
Emit == VFEdgeK(Key(st, steps), Proj(st), lastAct', lastRes', Key(st', steps'), Proj(st'))
====
