CONSTANTS
  KEEP = 2
  Base = 3
  Cap = 3
  MaxTip = 11
  MaxSteps = 7
  Scripts <- NoScripts
INIT PlainInit
NEXT Next
VIEW View
INVARIANTS FileInfoCovers CursorsSeparate
PROPERTIES PropSnapshot
CHECK_DEADLOCK FALSE
