---- MODULE PruneObs ----
(* INV-mode verdicts for C19: every prune event observed on the real node (an explicit PruneBlockFilesManual / PruneAndFlush call, or *)
(* block files disappearing while blocks are connected) is one line of env OBS:                                                       *)
(*   {kind, tip, locks: [h...], hi, pruned: [file...], heights: [[h...] per file], after: [{size,undo,nb,hf,hl} per file],            *)
(*    usage0, usage1, target}                                                                                                         *)
(* and TLC evaluates the clauses of the property (Prune!EvKeeps*, EvAutoPost) on it.                                                  *)
EXTENDS Prune, Json, IOUtils
ObsLines == ndJsonDeserialize(IOEnv.OBS)
VARIABLE idx
ToSet(q) == {q[i] : i \in 1..Len(q)}
L == ObsLines[idx]
\* GetPruneRange's upper end for the observed tip and locks (what "eligible" means for the automatic postcondition)
ObsHi == LET lp == IF Len(L.locks) = 0 THEN L.tip ELSE Max(1, Min(L.tip, SetMin(ToSet(L.locks)) - BUF - 1))
         IN IF L.tip <= 0 THEN 0 ELSE Min(lp, Max(0, L.tip - KEEP))
E == [kind |-> L.kind, tip |-> L.tip, locks |-> ToSet(L.locks), hi |-> ObsHi, pruned |-> ToSet(L.pruned),
      heights |-> [f \in 1..Len(L.heights) |-> ToSet(L.heights[f])], after |-> L.after,
      usage0 |-> L.usage0, usage1 |-> L.usage1, target |-> L.target]
InitObs == /\ idx \in 1..Len(ObsLines)
           /\ st = InitS /\ ev = <<>> /\ steps = 0
           /\ lastAct = <<"observed", idx>> /\ lastRes = <<>>
Stutter == UNCHANGED <<vars, idx>>
ObsKeepsRecent == EvKeepsRecent(E)
ObsKeepsLocked == EvKeepsLocked(E)
ObsKeepsBuffer == EvKeepsBuffer(E)
\* the file infos of the node cover the blocks stored in the files (L.after = the file infos at the observation, L.heights = the heights
\* of the blocks the harness saw stored in each file; a pruned file has size 0)
ObsFileInfoCovers == \A f \in 1..Len(L.after) : (L.after[f].size > 0 /\ f <= Len(L.heights)) => \A x \in ToSet(L.heights[f]) : L.after[f].hf <= x /\ x <= L.after[f].hl
\* the same without the height-0 / height-1 corner of the clamps (see Prune.tla); violated = a violation outside the known corner
ObsKeepsRecentX == EvKeepsRecentX(E)
ObsKeepsLockedX == EvKeepsLockedX(E)
\* only when the pruning rules were in force at all (tip above PruneAfterHeight) and the target is a real one
\* (an event noticed while blocks were being connected is not judged here: the tip at the moment of the call is not observable)
ObsAutoPost == (L.kind = "auto" /\ L.explicit /\ L.tip > AfterHeight /\ ~ManualOnly) => (E.usage1 < E.target \/ ~EvEligibleLeft(E))
====
