---- MODULE MCPruneSnap ----
EXTENDS PruneSnap
NoScripts == <<>>
\* behaviours replayed on a real node with an activated snapshot of height 110 (Cap is the model's stand-in for the 64 KiB files; the
\* real layout is observed, not predicted)
SnapScripts == <<
  << <<"mine", 5>>, <<"base">>, <<"swap">>, <<"mine", 300>>, <<"mine", 300>>, <<"prune", 10000>> >>,      \* base in the middle of a file, an out-of-order pair after it
  << <<"base">>, <<"mine", 3>>, <<"swap">>, <<"swap">>, <<"mine", 300>>, <<"mine", 330>>, <<"prune", 10000>> >>,   \* base first in its file
  << <<"mine", 240>>, <<"swap">>, <<"base">>, <<"swap">>, <<"mine", 300>>, <<"mine", 300>>, <<"prune", 400>>, <<"prune", 10000>> >>,   \* base in a later file
  << <<"mine", 5>>, <<"swap">>, <<"mine", 300>>, <<"mine", 300>>, <<"prune", 10000>>, <<"base">>, <<"mine", 1>>, <<"prune", 10000>> >>,   \* base never / late: files go
  << <<"hist">>, <<"hist">>, <<"mine", 5>>, <<"base">>, <<"swap">>, <<"hist">>, <<"mine", 300>>, <<"mine", 300>>, <<"prune", 10000>> >> >>   \* background validation under way
====
