---- MODULE MCPrune ----
(* Model values for Prune.tla: the real constants of a regtest node in fast-prune mode (manual pruning), the same node with an
   automatic target (thorough tier), and a scaled-down model that TLC explores exhaustively. *)
EXTENDS PruneScript
\* --- real constants, fast-prune geometry (64 KiB files, 16 KiB chunks); block sizes are exact serialized sizes + 8
RealSizeOf == [s |-> 308, m |-> 4008, l |-> 30008, x |-> 70008, M |-> 1000008]
RealConnect == {<<1, "s">>, <<9, "m">>, <<30, "l">>, <<12, "x">>, <<100, "s">>, <<120, "m">>, <<289, "s">>, <<250, "l">>, <<200, "x">>}
RealReorg == {<<1, "s">>, <<3, "l">>, <<12, "m">>, <<20, "x">>}
RealSwap == {"s", "m", "l"}
NoSwap == {}
SmallSwap == {"a", "b"}
\* --- automatic pruning: one-megabyte blocks (one file each in fast-prune mode)
AutoConnect == {<<300, "M">>, <<200, "M">>, <<45, "M">>, <<10, "M">>, <<1, "M">>, <<20, "l">>}
AutoReorg == {<<2, "M">>}
\* --- directed behaviours (real constants, manual pruning). Layouts: "s" about 212 blocks per file, "m" 16, "l" 2, "x" one block per file.
ManualScripts == <<
  \* the 288-block window, file by file: two blocks per file, tip 350 -> heights up to 62 may go; 61 / 62 / 63 straddle a file boundary
  << <<"connect", 250, "l">>, <<"connect", 100, "l">>, <<"manual", 60>>, <<"manual", 61>>, <<"manual", 62>>, <<"manual", 63>>, <<"manual", 350>>,
     <<"connect", 1, "l">>, <<"manual", 350>>, <<"connect", 1, "l">>, <<"manual", 352>> >>,
  \* one block per file: every height is a file boundary
  << <<"connect", 200, "x">>, <<"connect", 100, "x">>, <<"manual", 11>>, <<"manual", 12>>, <<"manual", 13>>, <<"connect", 1, "x">>, <<"manual", 13>>, <<"manual", 300>> >>,
  \* prune locks: height_first - 11 is the last prunable height
  << <<"connect", 200, "x">>, <<"connect", 120, "x">>, <<"lock", "a", 30>>, <<"manual", 25>>, <<"lock", "a", 31>>, <<"manual", 25>>, <<"lock", "b", 25>>, <<"manual", 32>>,
     <<"unlock", "b">>, <<"manual", 32>>, <<"unlock", "a">>, <<"manual", 32>> >>,
  \* a reorg moves a lock back: lock at 340, fork point 330 -> lock 330; then the chain grows and pruning stops at 300 - 11 (lock b), then at 330 - 11
  << <<"connect", 250, "l">>, <<"connect", 100, "l">>, <<"lock", "a", 340>>, <<"lock", "b", 300>>, <<"reorg", 20, "m">>, <<"reorg", 1, "s">>, <<"connect", 289, "s">>, <<"manual", 640>>,
     <<"unlock", "b">>, <<"manual", 640>>, <<"unlock", "a">>, <<"manual", 640>> >>,
  \* mixed layout with a stale branch inside a file, lock inside the buffer of a file boundary
  << <<"connect", 120, "m">>, <<"reorg", 12, "m">>, <<"connect", 200, "x">>, <<"connect", 9, "m">>, <<"lock", "a", 139>>, <<"manual", 200>>, <<"lock", "a", 140>>, <<"manual", 200>>,
     <<"lock", "a", 155>>, <<"manual", 200>> >>,
  \* blocks stored out of height order inside a file (second of a pair before the first): the file infos must still cover every block
  << <<"connect", 20, "m">>, <<"swap", "m">>, <<"connect", 3, "m">>, <<"swap", "m">>, <<"swap", "l">>, <<"swap", "s">>, <<"swap", "s">>, <<"connect", 289, "s">>,
     <<"connect", 30, "l">>, <<"manual", 28>>, <<"manual", 60>>, <<"manual", 400>> >>,
  \* short chain: nothing above height 0 may go
  << <<"connect", 100, "s">>, <<"manual", 50>>, <<"connect", 120, "m">>, <<"manual", 100>>, <<"auto">> >> >>
\* the two corner cases of the clamps max(0, tip - 288) and max(1, lock - 11): files that hold nothing above height 0 / 1
CornerScripts == <<
  << <<"connect", 12, "x">>, <<"manual", 1>> >>,
  << <<"connect", 200, "x">>, <<"connect", 100, "x">>, <<"lock", "a", 0>>, <<"manual", 5>> >>,
  << <<"connect", 200, "x">>, <<"connect", 100, "x">>, <<"lock", "a", 1>>, <<"manual", 5>> >> >>
AllScripts == ManualScripts \o CornerScripts
\* automatic pruning (target 550 MiB, one-megabyte blocks): usage reaches target - 17 MiB at about 559 blocks
AutoScripts == <<
  << <<"connect", 300, "M">>, <<"connect", 200, "M">>, <<"connect", 45, "M">>, <<"auto">>, <<"connect", 10, "M">>, <<"connect", 10, "M">>, <<"auto">>,
     <<"lock", "a", 270>>, <<"connect", 45, "M">>, <<"auto">>, <<"unlock", "a">>, <<"auto">>, <<"connect", 1, "M">>, <<"manual", 600>> >>,
  << <<"connect", 300, "M">>, <<"connect", 200, "M">>, <<"lock", "a", 250>>, <<"lock", "b", 262>>, <<"connect", 45, "M">>, <<"connect", 45, "M">>, <<"auto">>, <<"reorg", 2, "M">>,
     <<"connect", 10, "M">>, <<"unlock", "a">>, <<"auto">>, <<"connect", 10, "M">>, <<"unlock", "b">>, <<"auto">> >>,
  \* files with two blocks at the bottom of the chain and a lock whose buffer ends between the two blocks of a file (3 | 4)
  << <<"connect", 20, "l">>, <<"lock", "a", 14>>, <<"connect", 300, "M">>, <<"connect", 200, "M">>, <<"connect", 45, "M">>, <<"connect", 45, "M">>, <<"auto">>,
     <<"lock", "a", 16>>, <<"connect", 1, "M">>, <<"auto">>, <<"unlock", "a">>, <<"auto">>, <<"connect", 1, "M">>, <<"auto">> >> >>
\* --- scaled-down model: unit-size arithmetic
SmallSizeOf == [a |-> 2, b |-> 5, c |-> 9]
SmallConnect == {<<1, "a">>, <<1, "b">>, <<1, "c">>, <<3, "a">>, <<4, "b">>}
SmallReorg == {<<1, "a">>, <<2, "b">>, <<3, "a">>}
====
