---- MODULE PruneScript ----
(* Directed behaviours: the specification is driven along fixed action sequences (the boundary cases of every rule), so that the *)
(* replay always visits them; the predictions still come from Prune.tla.                                                          *)
EXTENDS Prune
CONSTANT Scripts
VARIABLE sc
Do(a) == CASE a[1] = "connect" -> Connect(a[2], a[3])
           [] a[1] = "reorg"   -> Reorg(a[2], a[3])
           [] a[1] = "swap"    -> Swap(a[2])
           [] a[1] = "manual"  -> ManualPrune(a[2])
           [] a[1] = "auto"    -> AutoPrune
           [] a[1] = "lock"    -> UpdateLock(a[2], a[3])
           [] a[1] = "unlock"  -> DeleteLock(a[2])
ScriptInit == sc \in 1..Len(Scripts) /\ Init
ScriptNext == steps < Len(Scripts[sc]) /\ Do(Scripts[sc][steps + 1]) /\ UNCHANGED sc
ScriptView == <<sc, st, steps>>
ScriptEmit == VFEdgeK(<<sc, steps>>, Proj(st), lastAct', lastRes', <<sc, steps'>>, Proj(st'))
\* the undirected modes of the same module (sc unused)
PlainInit == sc = 0 /\ Init
PlainNext == Next /\ UNCHANGED sc
PlainSimNext == SimNext /\ UNCHANGED sc
====
