CONSTANTS
  KEEP = 288
  Base = 110
  Cap = 200
  MaxTip = 1000
  MaxSteps = 12
  Scripts <- NoScripts
INIT InitObs
NEXT Stutter
INVARIANTS ObsSnapFileInfoCovers ObsSnapKeepsBackground ObsSnapKeepsRecent
CHECK_DEADLOCK FALSE
