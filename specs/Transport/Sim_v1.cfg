CONSTANTS
  Confs <- ConfsV1
  GarbLens = {0}
  PreDecoys = {0}
  VersionLens = {0}
  DecoyLens = {0}
  Types = {"ping", "version", "addr", "feature", "abcdefghijkl", "verack"}
  Payloads = {"0", "1a", "1b", "300a", "70000a"}
  PLenOf <- MCPLenOf
  Frags = {1, 2, 3, 4, 5, 15, 16, 17, 20, 23, 24, 25, 100}
  LenBits = {0}
  Sels = {0, 1, 2, 3}
  MaxMsgs = 5
  MaxDecoys = 0
  TamperAfter = {0, 1, 2, 99}
  TamperKinds = {"key", "garb", "term", "pkt", "v1hdr", "v1pay"}
  AllowBurst = TRUE
INIT Init
NEXT Next
VIEW View0
INVARIANTS TypeOK ReceivedIsPrefixOfSent AllDeliveredWhenIdle NothingAfterTamper TamperEndsFailed NoSpuriousFailure SameSessionId AppMeansGenuine MachinesInStep
CHECK_DEADLOCK FALSE
ACTION_CONSTRAINT Emit
