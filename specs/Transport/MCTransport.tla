---- MODULE MCTransport ----
EXTENDS Transport
\* payload ids: the leading digits are the length in bytes
MCPLenOf == [p \in {"0", "1a", "1b", "2a", "300a", "70000a", "4000000a"} |->
               CASE p = "0" -> 0 [] p = "1a" -> 1 [] p = "1b" -> 1 [] p = "2a" -> 2 [] p = "300a" -> 300 [] p = "70000a" -> 70000 [] p = "4000000a" -> 4000000]
V2V2 == <<"v2", "v2">>
V1V1 == <<"v1", "v1">>
V1V2 == <<"v1", "v2">>
NoneScripted == <<FALSE, FALSE>>
Scripted1 == <<TRUE, FALSE>>
Scripted2 == <<FALSE, TRUE>>
\* bounds on monotone quantities for the exhaustive runs
====
