---- MODULE MCTransport ----
EXTENDS Transport
\* payload ids: the leading digits are the length in bytes
MCPLenOf == [p \in {"0", "1a", "1b", "2a", "300a", "70000a", "4000000a"} |->
               CASE p = "0" -> 0 [] p = "1a" -> 1 [] p = "1b" -> 1 [] p = "2a" -> 2 [] p = "300a" -> 300 [] p = "70000a" -> 70000 [] p = "4000000a" -> 4000000]
CV2V2 == [kind |-> <<"v2", "v2">>, scripted |-> <<FALSE, FALSE>>]
CV1V1 == [kind |-> <<"v1", "v1">>, scripted |-> <<FALSE, FALSE>>]
CV1V2 == [kind |-> <<"v1", "v2">>, scripted |-> <<FALSE, FALSE>>]
CS2V2 == [kind |-> <<"v2", "v2">>, scripted |-> <<TRUE, FALSE>>]
CV2S2 == [kind |-> <<"v2", "v2">>, scripted |-> <<FALSE, TRUE>>]
ConfsAll == {CV2V2, CV1V1, CV1V2, CS2V2, CV2S2}
ConfsReal == {CV2V2, CV1V1, CV1V2}
ConfsV2 == {CV2V2}
ConfsV1 == {CV1V1, CV1V2}
ConfsV1V1 == {CV1V1}
ConfsV1V2 == {CV1V2}
ConfsScripted == {CS2V2, CV2S2}
ConfsS2V2 == {CS2V2}
ConfsV2S2 == {CV2S2}
====
