CONSTANTS
  Confs <- ConfsScripted
  GarbLens = {0, 1, 16, 300, 4095}
  PreDecoys = {0, 1, 2}
  VersionLens = {0, 5}
  DecoyLens = {0, 7, 300}
  Types = {"ping", "version", "addr", "feature", "abcdefghijkl", "verack"}
  Payloads = {"0", "1a", "1b", "300a", "70000a"}
  PLenOf <- MCPLenOf
  Frags = {1, 2, 3, 16, 17, 20, 21, 63, 64, 65, 100, 4110}
  LenBits = {0, 1, 7, 8, 15, 16, 21, 22, 23}
  Sels = {0, 1, 2, 3}
  MaxMsgs = 4
  MaxDecoys = 2
  TamperAfter = {0, 1, 2, 99}
  TamperKinds = {"key", "garb", "term", "pkt", "v1hdr", "v1pay"}
  AllowBurst = TRUE
INIT Init
NEXT Next
VIEW View0
INVARIANTS TypeOK ReceivedIsPrefixOfSent AllDeliveredWhenIdle NothingAfterTamper TamperEndsFailed NoSpuriousFailure SameSessionId AppMeansGenuine MachinesInStep
CHECK_DEADLOCK FALSE
ACTION_CONSTRAINT Emit
