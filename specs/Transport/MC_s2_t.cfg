CONSTANTS
  Confs <- ConfsScripted
  GarbLens = {0, 1}
  PreDecoys = {0, 1, 2}
  VersionLens = {0, 5}
  DecoyLens = {0, 7}
  Types = {"ping", "verack"}
  Payloads = {"0", "1a"}
  PLenOf <- MCPLenOf
  Frags = {17, 64}
  LenBits = {0, 22}
  Sels = {0}
  MaxMsgs = 1
  MaxDecoys = 1
  TamperAfter = {0}
  TamperKinds = {"key", "garb", "term", "pkt", "v1hdr", "v1pay"}
  AllowBurst = FALSE
INIT Init
NEXT Next
VIEW View0
INVARIANTS TypeOK ReceivedIsPrefixOfSent AllDeliveredWhenIdle NothingAfterTamper TamperEndsFailed NoSpuriousFailure SameSessionId AppMeansGenuine MachinesInStep
CHECK_DEADLOCK FALSE
