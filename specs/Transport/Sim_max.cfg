CONSTANTS
  Confs <- ConfsReal
  GarbLens = {0, 17}
  PreDecoys = {0}
  VersionLens = {0}
  DecoyLens = {0}
  Types = {"version", "ping", "verack"}
  Payloads = {"1a", "4000000a"}
  PLenOf <- MCPLenOf
  Frags = {3, 24, 100, 4000000, 4000019, 4000020}
  LenBits = {0, 21, 23}
  Sels = {0, 1, 2, 3}
  MaxMsgs = 2
  MaxDecoys = 0
  TamperAfter = {0, 1, 99}
  TamperKinds = {"key", "garb", "term", "pkt", "v1hdr", "v1pay"}
  AllowBurst = FALSE
INIT Init
NEXT Next
VIEW View0
INVARIANTS TypeOK ReceivedIsPrefixOfSent AllDeliveredWhenIdle NothingAfterTamper TamperEndsFailed NoSpuriousFailure SameSessionId AppMeansGenuine MachinesInStep
CHECK_DEADLOCK FALSE
ACTION_CONSTRAINT Emit
