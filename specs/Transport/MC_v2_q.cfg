CONSTANTS
  Confs <- ConfsV2
  GarbLens = {0, 2}
  PreDecoys = {0}
  VersionLens = {0}
  DecoyLens = {0}
  Types = {"ping", "verack"}
  Payloads = {"1a"}
  PLenOf <- MCPLenOf
  Frags = {17, 64}
  LenBits = {0, 22}
  Sels = {0}
  MaxMsgs = 1
  MaxDecoys = 0
  TamperAfter = {0}
  TamperKinds = {"key", "garb", "term", "pkt", "v1hdr", "v1pay"}
  AllowBurst = FALSE
INIT Init
NEXT Next
VIEW View0
INVARIANTS TypeOK ReceivedIsPrefixOfSent AllDeliveredWhenIdle NothingAfterTamper TamperEndsFailed NoSpuriousFailure SameSessionId AppMeansGenuine MachinesInStep
CHECK_DEADLOCK FALSE
