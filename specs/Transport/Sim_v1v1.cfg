CONSTANTS
  Kind <- V1V1
  Scripted <- NoneScripted
  GarbLens = {0}
  PreDecoys = {0}
  VersionLens = {0}
  DecoyLens = {0}
  Types = {"ping", "version", "addr", "feature", "abcdefghijkl", "verack"}
  Payloads = {"0", "1a", "1b", "300a", "70000a"}
  PLenOf <- MCPLenOf
  Frags = {1, 2, 3, 4, 16, 20, 23, 24, 25, 100}
  LenBits = {0}
  Sels = {0, 1, 2, 3}
  MaxMsgs = 5
  MaxDecoys = 0
  TamperAfter = {0, 1, 2, 99}
  AllowBurst = TRUE
INIT Init
NEXT Next
VIEW View0
INVARIANTS TypeOK ReceivedIsPrefixOfSent AllDeliveredWhenIdle NothingAfterTamper TamperEndsFailed NoSpuriousFailure SameSessionId AppMeansGenuine MachinesInStep
CHECK_DEADLOCK FALSE
ACTION_CONSTRAINT Emit
