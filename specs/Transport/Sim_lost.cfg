CONSTANTS
  Confs <- ConfsV2
  GarbLens = {0, 300, 4000}
  PreDecoys = {0}
  VersionLens = {0}
  DecoyLens = {0}
  Types = {"ping", "verack"}
  Payloads = {"300a", "70000a"}
  PLenOf <- MCPLenOf
  Frags = {100, 4110, 4111, 4200}
  LenBits = {0}
  Sels = {0, 1, 2, 3}
  MaxMsgs = 4
  MaxDecoys = 0
  TamperAfter = {0}
  TamperKinds = {"key", "term"}
  AllowBurst = FALSE
INIT Init
NEXT Next
VIEW View0
INVARIANTS TypeOK ReceivedIsPrefixOfSent AllDeliveredWhenIdle NothingAfterTamper TamperEndsFailed NoSpuriousFailure SameSessionId AppMeansGenuine MachinesInStep
CHECK_DEADLOCK FALSE
ACTION_CONSTRAINT Emit
