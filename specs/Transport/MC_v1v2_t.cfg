CONSTANTS
  Confs <- ConfsV1V2
  GarbLens = {0}
  PreDecoys = {0}
  VersionLens = {0}
  DecoyLens = {0}
  Types = {"version"}
  Payloads = {"0", "2a"}
  PLenOf <- MCPLenOf
  Frags = {1, 16}
  LenBits = {0}
  Sels = {0}
  MaxMsgs = 2
  MaxDecoys = 0
  TamperAfter = {0}
  TamperKinds = {"key", "garb", "term", "pkt", "v1hdr", "v1pay"}
  AllowBurst = FALSE
INIT Init
NEXT Next
VIEW View0
INVARIANTS TypeOK ReceivedIsPrefixOfSent AllDeliveredWhenIdle NothingAfterTamper TamperEndsFailed NoSpuriousFailure SameSessionId AppMeansGenuine MachinesInStep
CHECK_DEADLOCK FALSE
