---- MODULE Transport ----
(***************************************************************************)
(* Peer transports (src/net.cpp: V1Transport, V2Transport; src/bip324.cpp) *)
(* Two endpoints, side 1 = initiator, side 2 = responder, each with the    *)
(* code's send and receive state machines.  The wire of direction d (from  *)
(* side d to side 3-d) is the send buffer of side d: a sequence of         *)
(* abstract units with byte lengths                                        *)
(*    key 64 | garb g | term 16 | pkt 3+1+clen+16 | v1hdr 24 | v1pay plen  *)
(* One action per public call: Send = SetMessageToSend, Pump(d, k) =       *)
(* GetBytesToSend / ReceivedBytes on k bytes (any fragmentation) /         *)
(* MarkBytesSent of what was consumed, Receive = GetReceivedMessage,       *)
(* Tamper = one bit flipped in a unit no byte of which was delivered yet.  *)
(* Ciphers are abstract: a secret is "genuine" iff the key a side received *)
(* was not altered; a garbage terminator is recognised and a packet        *)
(* authenticates iff both sides hold the genuine secret, no bit of it was  *)
(* altered and (first packet after the terminator only) the garbage that   *)
(* precedes it, which is its associated data, was not altered.             *)
(***************************************************************************)
EXTENDS Integers, Sequences, FiniteSets, TLC, VF
CONSTANTS
  Confs,       \* endpoint configurations to choose from: [kind |-> <<kind of side 1, kind of side 2>>, scripted |-> <<BOOLEAN, BOOLEAN>>]
               \* kind "v1" or "v2" (v1 on side 2 only together with v1 on side 1); scripted = the side is the harness's own BIP324
               \* peer, which may send decoys and a non-empty version packet
  GarbLens,    \* garbage lengths to choose from (0..4095)
  PreDecoys,   \* numbers of decoy packets a scripted side puts between terminator and version packet
  VersionLens, \* version packet content lengths of a scripted side (a real side sends 0)
  DecoyLens,   \* content lengths of decoys
  Types,       \* message types
  Payloads,    \* payload ids
  PLenOf,      \* payload id -> length in bytes
  Frags,       \* fragment sizes for Pump (besides "everything")
  LenBits,     \* which bit of a packet's 24-bit length field Tamper may flip
  Sels,        \* selectors for the position of the flipped byte inside a unit (0..3)
  MaxMsgs,     \* accepted Send calls per side
  MaxDecoys,   \* Decoy calls per side
  TamperAfter, \* Tamper happens only after this many accepted Send calls (a set to choose from; 99 = never). Spreads the moment
               \* of the tamper event over the phases of a connection in sampled behaviours; {0} in exhaustive runs.
  TamperKinds, \* unit kinds Tamper may touch (all of them in exhaustive runs; a subset focuses sampled behaviours)
  AllowBurst

Sides == {1, 2}
Other(s) == 3 - s
Min(a, b) == IF a < b THEN a ELSE b
Min3(a, b, c) == Min(a, Min(b, c))

MaxGarbage == 4095
TermLen == 16
KeyLen == 64
Expansion == 20                  \* 3 length + 1 header + 16 tag
V1Header == 24
MaxContents == 1 + 12 + 4000000  \* MAX_CONTENTS_LEN in ProcessReceivedPacketBytes
BurstCount == 250                \* > REKEY_INTERVAL (224) packets

\* BIP324 short message type ids (0 = the 12-byte type name follows)
ShortIdTable == <<"addr", "block", "blocktxn", "cmpctblock", "feefilter", "filteradd", "filterclear", "filterload", "getblocks",
                  "getblocktxn", "getdata", "getheaders", "headers", "inv", "mempool", "merkleblock", "notfound", "ping", "pong",
                  "sendcmpct", "tx", "getcfilters", "cfilter", "getcfheaders", "cfheaders", "getcfcheckpt", "cfcheckpt", "addrv2">>
ShortId(t) == IF t = "feature" THEN 37
              ELSE IF \E i \in 1..Len(ShortIdTable) : ShortIdTable[i] = t
                   THEN CHOOSE i \in 1..Len(ShortIdTable) : ShortIdTable[i] = t ELSE 0
TypeOfId(i) == IF i = 37 THEN "feature" ELSE IF i \in 1..Len(ShortIdTable) THEN ShortIdTable[i] ELSE ""
ContentsLen(t, p) == (IF ShortId(t) = 0 THEN 13 ELSE 1) + PLenOf[p]

VARIABLES
  snd,       \* [side -> send state]: "MAYBE_V1", "AWAITING_KEY", "READY", "V1"
  buf,       \* [side -> sequence of units not yet completely delivered] = send buffer of the side
  boff,      \* [side -> bytes of Head(buf) already delivered]
  rcv,       \* [side -> receiver record]
  seen,      \* [side -> "none" | "genuine" | "altered"]: the public key the side received
  setup,     \* [side -> [kind, scripted, g, pre, vlen, tafter]]: garbage length, decoys before the version packet, version contents length
  sentLog, recvLog,   \* [side -> sequence of [t, p]]: accepted by SetMessageToSend / returned (not rejected) by GetReceivedMessage
  failed,    \* [side -> BOOLEAN]: ReceivedBytes returned false
  nsent, ndecoy, bursts,
  \* ghosts for the property
  tam,       \* [on, v2, d]: the one tamper event
  dl,        \* [direction -> bytes consumed by the receiver so far]
  due,       \* [direction -> stream offset by which the receiver must have failed, 0 = none]
  cut,       \* [direction -> number of messages that may still be delivered after the tamper, -1 = no limit]
  drop,      \* [direction -> index in sentLog of the v1 message whose checksum cannot match, 0 = none]
  lastAct, lastRes
vars == <<snd, buf, boff, rcv, seen, setup, sentLog, recvLog, failed, nsent, ndecoy, bursts, tam, dl, due, cut, drop, lastAct, lastRes>>
View0 == <<snd, buf, boff, rcv, seen, setup, sentLog, recvLog, failed, nsent, ndecoy, bursts, tam, dl, due, cut, drop>>

Kind == <<setup[1].kind, setup[2].kind>>
Scripted == <<setup[1].scripted, setup[2].scripted>>

----
\* units
Unit(k, n) == [k |-> k, n |-> n, tam |-> "none", bit |-> 0, sec |-> "na", clen |-> 0, ign |-> FALSE, aad |-> FALSE,
               app |-> FALSE, sid |-> 0, t |-> "", p |-> ""]
KeyU == Unit("key", KeyLen)
GarbU(g) == Unit("garb", g)
TermU(sec) == [Unit("term", TermLen) EXCEPT !.sec = sec]
PktU(sec, clen, ign, aad) == [Unit("pkt", clen + Expansion) EXCEPT !.sec = sec, !.clen = clen, !.ign = ign, !.aad = aad]
MsgU(sec, t, p) == [PktU(sec, ContentsLen(t, p), FALSE, FALSE) EXCEPT !.app = TRUE, !.sid = ShortId(t), !.t = t, !.p = p]
\* a v1 message: the header (magic 4, command 12, size 4, checksum 4) and, if not empty, the payload
V1U(t, p) == <<[Unit("v1hdr", V1Header) EXCEPT !.clen = PLenOf[p], !.t = t, !.p = p]>>
             \o (IF PLenOf[p] > 0 THEN <<[Unit("v1pay", PLenOf[p]) EXCEPT !.clen = PLenOf[p], !.t = t, !.p = p]>> ELSE <<>>)

RECURSIVE SumLen(_)
SumLen(us) == IF us = <<>> THEN 0 ELSE Head(us).n + SumLen(Tail(us))
\* GetBytesToSend().size(): V2Transport offers its whole send buffer, V1Transport the rest of the header or the rest of the payload
Avail(s) == IF buf[s] = <<>> THEN 0 ELSE IF snd[s] = "V1" THEN Head(buf[s]).n - boff[s] ELSE SumLen(buf[s]) - boff[s]

\* receiver record; for the v1 machine cnt = nHdrPos, len = hdr.nMessageSize
R0(st) == [st |-> st, cnt |-> 0, len |-> 0, bad |-> FALSE, gbad |-> FALSE, aadp |-> FALSE, ign |-> FALSE, app |-> FALSE,
           indata |-> FALSE, dpos |-> 0, mok |-> TRUE, mt |-> "", mp |-> "", msid |-> 0]
Complete(r) == r.st = "APP_READY" \/ (r.st = "V1" /\ r.indata /\ r.dpos = r.len)     \* ReceivedMessageComplete()
AnyFailed == failed[1] \/ failed[2]

\* the bytes a side puts into its send buffer when it starts the handshake / when it has received the other key
HandshakeUnits(s) == <<KeyU>> \o (IF setup[s].g > 0 THEN <<GarbU(setup[s].g)>> ELSE <<>>)
RECURSIVE Decoys(_, _, _, _)
Decoys(n, sec, len, first) == IF n = 0 THEN <<>> ELSE <<PktU(sec, len, TRUE, first)>> \o Decoys(n - 1, sec, len, FALSE)
DLen0 == CHOOSE x \in DecoyLens : \A y \in DecoyLens : x <= y
ReadyUnits(s, sec) == <<TermU(sec)>> \o Decoys(setup[s].pre, sec, DLen0, TRUE)
                      \o <<PktU(sec, setup[s].vlen, FALSE, setup[s].pre = 0)>>   \* the version packet
FirstPktLen(s) == (IF setup[s].pre > 0 THEN DLen0 ELSE setup[s].vlen) + Expansion

Init ==
  /\ \E c \in Confs, ta \in TamperAfter :
       LET v2v2 == c.kind = <<"v2", "v2">>
           scr == c.scripted[1] \/ c.scripted[2]
       IN \E g1 \in (IF v2v2 THEN GarbLens ELSE {0}), g2 \in (IF v2v2 THEN GarbLens ELSE {0}),
             pr \in (IF scr THEN PreDecoys ELSE {0}), vl \in (IF scr THEN VersionLens ELSE {0}) :
            setup = [s \in Sides |-> [kind |-> c.kind[s], scripted |-> c.scripted[s], g |-> IF s = 1 THEN g1 ELSE g2,
                                      pre |-> IF c.scripted[s] THEN pr ELSE 0, vlen |-> IF c.scripted[s] THEN vl ELSE 0, tafter |-> ta]]
  /\ snd = [s \in Sides |-> IF Kind[s] = "v1" THEN "V1" ELSE IF s = 1 THEN "AWAITING_KEY" ELSE "MAYBE_V1"]
  /\ buf = [s \in Sides |-> IF Kind[s] = "v2" /\ s = 1 THEN HandshakeUnits(1) ELSE <<>>]
  /\ boff = [s \in Sides |-> 0]
  /\ rcv = [s \in Sides |-> IF Kind[s] = "v1" THEN R0("V1") ELSE IF s = 1 THEN R0("KEY") ELSE R0("KEY_MAYBE_V1")]
  /\ seen = [s \in Sides |-> "none"]
  /\ sentLog = [s \in Sides |-> <<>>] /\ recvLog = [s \in Sides |-> <<>>]
  /\ failed = [s \in Sides |-> FALSE]
  /\ nsent = [s \in Sides |-> 0] /\ ndecoy = [s \in Sides |-> 0] /\ bursts = [s \in Sides |-> 0]
  /\ tam = [on |-> FALSE, v2 |-> FALSE, d |-> 0]
  /\ dl = [s \in Sides |-> 0] /\ due = [s \in Sides |-> 0] /\ cut = [s \in Sides |-> -1] /\ drop = [s \in Sides |-> 0]
  /\ lastAct = <<"init">> /\ lastRes = "none"

----
\* SetMessageToSend(type t, payload p) on side s
RefusedT == CHOOSE x \in Types : x = "version" \/ "version" \notin Types
RefusedP == CHOOSE x \in Payloads : TRUE
Send(s, t, p, refuse) ==
  LET acc == /\ buf[s] = <<>>
             /\ snd[s] \in {"READY", "V1"}
      sec == IF seen[s] = "genuine" THEN "good" ELSE "bad"
  IN /\ ~AnyFailed
     \* a v1 initiator that talks to a v2 responder opens with "version" (that is what the responder's v1 detection looks for)
     /\ (Kind = <<"v1", "v2">> /\ s = 1 /\ sentLog[1] = <<>>) => t = "version"
     /\ IF acc
        THEN /\ nsent[s] < MaxMsgs /\ ~refuse
             /\ buf' = [buf EXCEPT ![s] = IF snd[s] = "V1" THEN V1U(t, p) ELSE <<MsgU(sec, t, p)>>]
             /\ sentLog' = [sentLog EXCEPT ![s] = Append(@, [t |-> t, p |-> p])]
             /\ nsent' = [nsent EXCEPT ![s] = @ + 1]
        ELSE \* refused, nothing changes; one representative (t, p) is enough
             /\ refuse /\ t = RefusedT /\ p = RefusedP
             /\ UNCHANGED <<buf, sentLog, nsent>>
     /\ UNCHANGED <<snd, boff, rcv, seen, setup, recvLog, failed, ndecoy, bursts, tam, dl, due, cut, drop>>
     /\ lastAct' = <<"send", s, t, p, ShortId(t)>> /\ lastRes' = acc

\* a scripted side sends a decoy packet with n bytes of contents
Decoy(s, n) ==
  /\ ~AnyFailed /\ Scripted[s] /\ snd[s] = "READY" /\ buf[s] = <<>> /\ ndecoy[s] < MaxDecoys
  /\ buf' = [buf EXCEPT ![s] = <<PktU(IF seen[s] = "genuine" THEN "good" ELSE "bad", n, TRUE, FALSE)>>]
  /\ ndecoy' = [ndecoy EXCEPT ![s] = @ + 1]
  /\ UNCHANGED <<snd, boff, rcv, seen, setup, sentLog, recvLog, failed, nsent, bursts, tam, dl, due, cut, drop>>
  /\ lastAct' = <<"decoy", s, n>> /\ lastRes' = TRUE

----
\* ReceivedBytes: the receiver r of side `me` is fed W.k bytes from the front of W.b (offset W.o into its head unit).
\* One Step = one iteration of the loop in V2Transport::ReceivedBytes (one call for V1Transport), never across a unit boundary.
Adv(W, n, r2, ev, fail) ==
  LET whole == W.o + n = Head(W.b).n IN
  [W EXCEPT !.r = r2, !.k = W.k - n, !.n = W.n + n, !.ev = W.ev \cup ev, !.fail = fail,
            !.b = IF whole THEN Tail(W.b) ELSE W.b, !.o = IF whole THEN 0 ELSE W.o + n]

\* value of the 24-bit length field with bit b flipped
Flip(len, b) == IF (len \div (2 ^ b)) % 2 = 1 THEN len - 2 ^ b ELSE len + 2 ^ b

Step(W) ==
  LET r == W.r
      u == Head(W.b)
      urem == u.n - W.o
  IN
  CASE r.st = "KEY_MAYBE_V1" ->
         \* up to 16 bytes are compared with magic + "version\0\0\0\0\0"
         LET n == Min3(W.k, urem, 16 - r.cnt)
             match == u.k = "v1hdr" /\ u.t = "version"
         IN IF ~match THEN Adv(W, n, [r EXCEPT !.st = "KEY", !.cnt = r.cnt + n], {"hs"}, FALSE)
            ELSE IF r.cnt + n = 16 THEN Adv(W, n, [r EXCEPT !.st = "V1", !.cnt = 16], {"v1"}, FALSE)
            ELSE Adv(W, n, [r EXCEPT !.cnt = r.cnt + n], {}, FALSE)
    [] r.st = "KEY" ->
         LET n == Min3(W.k, urem, KeyLen - r.cnt) IN
         IF r.cnt + n < KeyLen THEN Adv(W, n, [r EXCEPT !.cnt = r.cnt + n], {}, FALSE)
         ELSE [Adv(W, n, [r EXCEPT !.st = "GARB_GARBTERM", !.cnt = 0], {"key"}, FALSE)
                 EXCEPT !.seen = IF u.k = "key" /\ u.tam = "none" THEN "genuine" ELSE "altered"]
    [] r.st = "GARB_GARBTERM" ->
         \* byte by byte: the last 16 bytes are compared with the expected terminator; at most 4095 + 16 bytes
         LET n == Min3(W.k, urem, MaxGarbage + TermLen - r.cnt)
             c == r.cnt + n
             gb == r.gbad \/ (u.k = "garb" /\ u.tam # "none")
             found == n = urem /\ u.k = "term" /\ u.tam = "none" /\ u.sec = "good" /\ W.seen = "genuine"
         IN IF found THEN Adv(W, n, [r EXCEPT !.st = "VERSION", !.cnt = 0, !.gbad = gb, !.aadp = TRUE], {}, FALSE)
            ELSE Adv(W, n, [r EXCEPT !.cnt = c, !.gbad = gb], {}, c = MaxGarbage + TermLen)
    [] r.st \in {"VERSION", "APP"} ->
         IF r.cnt < 3
         THEN LET n == Min3(W.k, urem, 3 - r.cnt) IN
              IF r.cnt + n < 3 THEN Adv(W, n, [r EXCEPT !.cnt = r.cnt + n], {}, FALSE)
              ELSE \* length descriptor complete: u is the packet being received
                   LET len == IF u.tam = "len" THEN Flip(u.clen, u.bit) ELSE u.clen
                       bad == \/ u.k # "pkt" \/ u.tam # "none" \/ u.sec # "good" \/ W.seen # "genuine"
                              \/ (r.aadp /\ (r.gbad \/ ~u.aad)) \/ (~r.aadp /\ u.aad)
                   IN Adv(W, n, [r EXCEPT !.cnt = 3, !.len = len, !.bad = bad, !.ign = u.ign, !.app = u.app,
                                          !.mt = IF u.sid = 0 THEN u.t ELSE TypeOfId(u.sid), !.mp = u.p, !.msid = u.sid],
                          {}, len > MaxContents)
         ELSE LET n == Min3(W.k, urem, r.len + Expansion - r.cnt)
                  c == r.cnt + n
              IN IF c < r.len + Expansion THEN Adv(W, n, [r EXCEPT !.cnt = c, !.bad = r.bad \/ u.tam # "none"], {}, FALSE)
                 ELSE IF r.bad \/ u.tam # "none" THEN Adv(W, n, [r EXCEPT !.cnt = c], {}, TRUE)      \* AEAD failure
                 ELSE \* authenticated: the expected AAD is cleared; a decoy is dropped
                      LET st2 == IF r.ign THEN r.st ELSE IF r.st = "VERSION" THEN "APP" ELSE "APP_READY"
                      IN Adv(W, n, [r EXCEPT !.st = st2, !.cnt = 0, !.aadp = FALSE, !.gbad = FALSE], {}, FALSE)
    [] r.st = "V1" /\ ~r.indata ->
         LET n == Min3(W.k, urem, V1Header - r.cnt) IN
         IF r.cnt + n < V1Header THEN Adv(W, n, [r EXCEPT !.cnt = r.cnt + n], {}, FALSE)
         ELSE \* header complete (magic and size are fine: they are never altered here); the checksum is looked at in GetReceivedMessage
              Adv(W, n, [r EXCEPT !.cnt = V1Header, !.indata = TRUE, !.len = u.clen, !.dpos = 0, !.mok = (u.tam = "none"),
                                  !.mt = u.t, !.mp = u.p], {}, u.k # "v1hdr")
    [] r.st = "V1" /\ r.indata ->
         \* the payload is hashed as it arrives
         LET n == Min3(W.k, urem, r.len - r.dpos) IN Adv(W, n, [r EXCEPT !.dpos = r.dpos + n, !.mok = r.mok /\ u.tam = "none"], {}, FALSE)

RECURSIVE Feed(_)
Feed(W) == IF W.k = 0 \/ W.fail \/ W.b = <<>> \/ Complete(W.r) THEN W ELSE Feed(Step(W))

PumpSizes(d) == {f \in Frags : f < Avail(d)} \cup (IF Avail(d) > 0 THEN {Avail(d)} ELSE {})
\* k bytes of direction d: GetBytesToSend on side d, ReceivedBytes (repeated while it makes progress) on the other side,
\* MarkBytesSent(number of bytes consumed)
Pump(d, k) ==
  \* (\E over a singleton: TLC evaluates Feed once instead of once per use of W)
  \E W \in {Feed([r |-> rcv[Other(d)], b |-> buf[d], o |-> boff[d], k |-> k, n |-> 0, ev |-> {}, fail |-> FALSE, seen |-> seen[Other(d)]])} :
  LET me == Other(d)
      hs == "hs" \in W.ev
      key == "key" \in W.ev
      sec == IF W.seen = "genuine" THEN "good" ELSE "bad"
      mine == (IF hs THEN HandshakeUnits(me) ELSE <<>>) \o (IF key THEN ReadyUnits(me, sec) ELSE <<>>)
  IN /\ ~AnyFailed /\ Avail(d) > 0
     /\ k \in PumpSizes(d)
     /\ rcv' = [rcv EXCEPT ![me] = W.r]
     \* after a failure nothing is marked as sent (the connection is over)
     /\ buf' = [buf EXCEPT ![d] = IF W.fail THEN @ ELSE W.b, ![me] = buf[me] \o mine]
     /\ boff' = [boff EXCEPT ![d] = IF W.fail THEN @ ELSE W.o]
     /\ snd' = [snd EXCEPT ![me] = IF key THEN "READY" ELSE IF hs THEN "AWAITING_KEY" ELSE IF "v1" \in W.ev THEN "V1" ELSE @]
     /\ seen' = [seen EXCEPT ![me] = W.seen]
     /\ failed' = [failed EXCEPT ![me] = W.fail]
     /\ dl' = [dl EXCEPT ![d] = @ + W.n]
     /\ UNCHANGED <<setup, sentLog, recvLog, nsent, ndecoy, bursts, tam, due, cut, drop>>
     /\ lastAct' = <<"pump", d, k>>
     /\ lastRes' = [ok |-> ~W.fail, n |-> IF W.fail THEN 0 ELSE W.n]

\* GetReceivedMessage on side s (only when ReceivedMessageComplete)
Receive(s) ==
  LET r == rcv[s]
      ok == IF r.st = "V1" THEN r.mok ELSE (r.msid = 0 \/ TypeOfId(r.msid) # "")
      v1r == [R0("V1") EXCEPT !.cnt = 0]
  IN /\ ~AnyFailed /\ Complete(r)
     /\ rcv' = [rcv EXCEPT ![s] = IF r.st = "V1" THEN v1r ELSE [r EXCEPT !.st = "APP"]]
     /\ recvLog' = [recvLog EXCEPT ![s] = IF ok THEN Append(@, [t |-> r.mt, p |-> r.mp]) ELSE @]
     /\ UNCHANGED <<snd, buf, boff, seen, setup, sentLog, failed, nsent, ndecoy, bursts, tam, dl, due, cut, drop>>
     /\ lastAct' = <<"recv", s>>
     /\ lastRes' = IF ok THEN [r |-> "ok", t |-> r.mt, p |-> r.mp] ELSE [r |-> "reject", t |-> "", p |-> ""]

\* BurstCount small messages are sent, delivered and retrieved one after the other in direction d (crosses a rekeying
\* boundary of the v2 ciphers); a macro over Send / Pump / Receive, usable only while direction d is idle
Burst(d) ==
  LET o == Other(d) IN
  /\ AllowBurst /\ ~AnyFailed /\ ~tam.on /\ bursts[d] = 0
  /\ buf[d] = <<>> /\ snd[d] \in {"READY", "V1"}
  /\ \/ (rcv[o].st = "APP" /\ rcv[o].cnt = 0 /\ snd[d] = "READY")
     \/ (rcv[o].st = "V1" /\ rcv[o].cnt = 0 /\ ~rcv[o].indata /\ snd[d] = "V1")
  /\ sentLog' = [sentLog EXCEPT ![d] = Append(@, [t |-> "burst", p |-> "burst"])]
  /\ recvLog' = [recvLog EXCEPT ![o] = Append(@, [t |-> "burst", p |-> "burst"])]
  /\ bursts' = [bursts EXCEPT ![d] = 1]
  /\ UNCHANGED <<snd, buf, boff, rcv, seen, setup, failed, nsent, ndecoy, tam, dl, due, cut, drop>>
  /\ lastAct' = <<"burst", d, BurstCount>> /\ lastRes' = TRUE

----
\* one bit of unit i of direction d is flipped on the wire; no byte of the unit has been delivered yet
Where(u) == CASE u.k \in {"key", "garb", "term"} -> {"any"}
              [] u.k = "pkt" -> {"len", "body"}
              [] u.k = "v1hdr" -> {"cksum"}
              [] u.k = "v1pay" -> {"payload"}
AppMsgs(us) == Cardinality({j \in 1..Len(us) : us[j].k = "pkt" /\ us[j].app})
Tamper(d, i, w, b, sel) ==
  LET u == buf[d][i]
      start == SumLen(SubSeq(buf[d], 1, i - 1)) - boff[d]       \* offset of the unit from the next byte to be delivered
      lo == start + (CASE w = "any" -> 0 [] w = "len" -> b \div 8 [] w = "body" -> 3 [] w = "cksum" -> 20 [] w = "payload" -> 0)
      hi == start + (CASE w = "len" -> b \div 8 + 1 [] w = "cksum" -> V1Header [] OTHER -> u.n)
      pos == lo + ((hi - lo - 1) * sel) \div 3
      bit == IF w = "len" THEN b % 8 ELSE (sel * 3 + 1) % 8
      v2 == u.k \notin {"v1hdr", "v1pay"}
      A == dl[d] + start
      l2 == Flip(u.clen, b)
      o == Other(d)
  IN /\ ~AnyFailed /\ ~tam.on /\ nsent[1] + nsent[2] >= setup[1].tafter
     /\ i > 1 \/ boff[d] = 0
     /\ u.k \in TamperKinds
     /\ w \in Where(u) /\ b \in (IF w = "len" THEN LenBits ELSE {0}) /\ (w = "len" => sel = 0)
     /\ buf' = [buf EXCEPT ![d][i].tam = w, ![d][i].bit = b]
     /\ tam' = [on |-> TRUE, v2 |-> v2, d |-> d]
     /\ due' = CASE u.k \in {"key"} -> [s \in Sides |-> KeyLen + MaxGarbage + TermLen]
                 [] u.k = "term" -> [due EXCEPT ![d] = KeyLen + MaxGarbage + TermLen]
                 [] u.k = "garb" -> [due EXCEPT ![d] = KeyLen + setup[d].g + TermLen + FirstPktLen(d)]
                 [] u.k = "pkt" -> [due EXCEPT ![d] = IF w = "body" THEN A + u.n ELSE IF l2 > MaxContents THEN A + 3 ELSE A + l2 + Expansion]
                 [] OTHER -> due
     /\ cut' = IF ~v2 THEN cut
               ELSE IF u.k = "key" THEN [s \in Sides |-> 0]
               ELSE [cut EXCEPT ![d] = Len(sentLog[d]) - AppMsgs(SubSeq(buf[d], i, Len(buf[d])))]
     /\ drop' = IF v2 THEN drop ELSE [drop EXCEPT ![d] = Len(sentLog[d])]
     /\ UNCHANGED <<snd, boff, rcv, seen, setup, sentLog, recvLog, failed, nsent, ndecoy, bursts, dl>>
     /\ lastAct' = <<"tamper", d, pos, bit, u.k, w>> /\ lastRes' = TRUE

\* The quantifier bounds that depend on the state keep TLC's simulator from splitting an action per parameter value: it then picks
\* uniformly among a dozen actions (so that sampled behaviours make progress) and prints all parameter choices of the one it picked.
WouldAccept(s) == buf[s] = <<>> /\ snd[s] \in {"READY", "V1"}
Next ==
  \/ \E s \in Sides : \E t \in {x \in Types : WouldAccept(s)}, p \in Payloads : Send(s, t, p, FALSE)
  \/ \E s \in {x \in Sides : ~WouldAccept(x)} : Send(s, RefusedT, RefusedP, TRUE)
  \/ \E s \in Sides : \E n \in {x \in DecoyLens : Scripted[s] /\ buf[s] = <<>>} : Decoy(s, n)
  \/ \E d \in Sides : \E k \in {f \in Frags : f < Avail(d)} : Pump(d, k)
  \/ \E d \in Sides : \E k \in {f \in {Avail(d)} : f > 0} : Pump(d, k)
  \/ \E s \in Sides : Receive(s)
  \/ \E d \in Sides : Burst(d)
  \/ \E d \in {x \in Sides : buf[x] # <<>>} : \E i \in 1..Len(buf[d]) : \E w \in {"any", "len", "body", "cksum", "payload"}, b \in LenBits \cup {0}, sel \in Sels :
        Tamper(d, i, w, b, sel)
Spec == Init /\ [][Next]_vars

----
\* C32
IsPrefix(a, b) == Len(a) <= Len(b) /\ SubSeq(b, 1, Len(a)) = a
Without(sq, i) == IF i = 0 THEN sq ELSE SubSeq(sq, 1, i - 1) \o SubSeq(sq, i + 1, Len(sq))
\* what the other side must get in direction d: everything sent, minus the v1 message whose payload or checksum was altered
Expect(d) == Without(sentLog[d], drop[d])

\* what has been received is what was sent, in order, nothing else (v1: the damaged message is missing, the others are unaffected)
ReceivedIsPrefixOfSent == \A d \in Sides : IsPrefix(recvLog[Other(d)], Expect(d))
\* ... and everything, once all bytes are delivered and retrieved
Idle(d) == buf[d] = <<>> /\ ~Complete(rcv[Other(d)]) /\ ~AnyFailed /\ ~(tam.on /\ tam.v2)
AllDeliveredWhenIdle == \A d \in Sides : Idle(d) => recvLog[Other(d)] = Expect(d)
\* v2: after an altered bit nothing from the altered unit on is delivered (an altered key: nothing at all, in both directions) ...
NothingAfterTamper == \A d \in Sides : cut[d] >= 0 => Len(recvLog[Other(d)]) <= cut[d]
\* ... and the connection has failed once the receiver has consumed the stream up to where the damage must show
TamperEndsFailed == \A d \in Sides : (due[d] > 0 /\ dl[d] >= due[d]) => failed[Other(d)]
\* no failure without tampering
NoSpuriousFailure == AnyFailed => tam.on /\ tam.v2
\* session ids: a function of the two keys as each side saw them
SessId(s) == IF s = 1 THEN <<"k1", IF seen[1] = "genuine" THEN "k2" ELSE "k2*">>
             ELSE <<IF seen[2] = "genuine" THEN "k1" ELSE "k1*", "k2">>
InApp(s) == rcv[s].st \in {"APP", "APP_READY"}
SameSessionId == (InApp(1) /\ InApp(2)) => SessId(1) = SessId(2)
\* a side that got through the handshake holds the genuine secret
AppMeansGenuine == \A s \in Sides : InApp(s) => seen[s] = "genuine" /\ seen[Other(s)] # "altered"
\* the send and receive machines move together (the Assume()s of SetSendState / SetReceiveState)
MachinesInStep == \A s \in Sides :
  /\ snd[s] = "MAYBE_V1" <=> rcv[s].st = "KEY_MAYBE_V1"
  /\ snd[s] = "AWAITING_KEY" <=> rcv[s].st = "KEY"
  /\ snd[s] = "READY" <=> rcv[s].st \in {"GARB_GARBTERM", "VERSION", "APP", "APP_READY"}
  /\ snd[s] = "V1" <=> rcv[s].st = "V1"
  /\ snd[s] = "MAYBE_V1" => buf[s] = <<>>
  /\ Kind[s] = "v2" /\ s = 1 => snd[s] # "V1"
TypeOK == /\ \A s \in Sides : boff[s] >= 0 /\ (buf[s] = <<>> => boff[s] = 0) /\ (buf[s] # <<>> => boff[s] < Head(buf[s]).n)
          /\ \A s \in Sides : rcv[s].cnt >= 0 /\ rcv[s].cnt <= MaxGarbage + TermLen + MaxContents

----
\* projection compared with the implementation
TType(s) == IF rcv[s].st = "V1" THEN "v1" ELSE IF InApp(s) THEN "v2" ELSE "detecting"      \* GetInfo().transport_type
SidEq == IF InApp(1) /\ InApp(2) THEN (IF SessId(1) = SessId(2) THEN "eq" ELSE "neq") ELSE "na"
Cfg == [kind |-> Kind, scripted |-> Scripted, setup |-> <<setup[1], setup[2]>>,
        plen |-> [p \in Payloads |-> PLenOf[p]], sids |-> [t \in Types |-> ShortId(t)], dlen0 |-> DLen0]
Proj == [recv |-> <<recvLog[1], recvLog[2]>>, failed |-> <<failed[1], failed[2]>>, ttype |-> <<TType(1), TType(2)>>,
         sideq |-> SidEq, avail |-> <<Avail(1), Avail(2)>>, complete |-> <<Complete(rcv[1]), Complete(rcv[2])>>]
\* the first state of a behaviour also carries the configuration the harness has to build
Proj0 == [Proj EXCEPT !.recv = <<recvLog[1], recvLog[2]>>] @@ (IF TLCGet("level") = 1 THEN [cfg |-> Cfg] ELSE <<>>)
\* compact key of the full state (the projection is not injective): tells sibling successors apart in the simulator's output
UKey(u) == <<u.k, u.n, u.tam, u.bit, u.sec, u.t, u.p, u.ign, u.aad>>
RKey(r) == <<r.st, r.cnt, r.len, r.bad, r.gbad, r.aadp, r.ign, r.app, r.indata, r.dpos, r.mok, r.mt, r.mp, r.msid>>
Key0 == <<<<snd[1], snd[2]>>, <<[j \in 1..Len(buf[1]) |-> UKey(buf[1][j])], [j \in 1..Len(buf[2]) |-> UKey(buf[2][j])]>>, <<boff[1], boff[2]>>,
          <<RKey(rcv[1]), RKey(rcv[2])>>, <<seen[1], seen[2]>>, <<nsent[1], nsent[2], ndecoy[1], ndecoy[2], bursts[1], bursts[2]>>,
          tam.on, <<dl[1], dl[2], due[1], due[2], cut[1], cut[2], drop[1], drop[2]>>, <<Len(sentLog[1]), Len(sentLog[2])>>>>
Emit == VFEdgeK(Key0, Proj0, lastAct', lastRes', Key0', Proj')
====
