CONSTANTS
  Kind <- V2V2
  Scripted <- Scripted1
  GarbLens = {1}
  PreDecoys = {0, 1}
  VersionLens = {0, 5}
  DecoyLens = {0, 7}
  Types = {"ping", "verack"}
  Payloads = {"1a"}
  PLenOf <- MCPLenOf
  Frags = {17}
  LenBits = {0, 22}
  Sels = {0}
  MaxMsgs = 1
  MaxDecoys = 1
  TamperAfter = {0}
  AllowBurst = FALSE
INIT Init
NEXT Next
VIEW View0
INVARIANTS TypeOK ReceivedIsPrefixOfSent AllDeliveredWhenIdle NothingAfterTamper TamperEndsFailed NoSpuriousFailure SameSessionId AppMeansGenuine MachinesInStep
CHECK_DEADLOCK FALSE
