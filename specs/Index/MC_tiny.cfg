CONSTANTS
  MaxBlocks = 2
  MaxInv = 1
  FileLimit = 3
  PosBeforeRollover = FALSE
  MaxRestarts = 2
  TxU <- TxUDef
  Lists <- ListsA
  CbModes = {"max"}
  Dts = {1}
  H0 = 101
  BaseDt = 1
  BaseCoins <- BaseDef
INIT InitI
NEXT NextI
VIEW ViewI
INVARIANTS UtxoIsReplay NoIndexErrorClean OnlyKnownError SyncedCoversChain TxIndexAgrees SpenderAgreesClean EntriesFound CoinStatsAgree FiltersAgree FilterBytesAgree StaleFilterBytesAgree RunningStateAgrees CommitBehindFlush
CHECK_DEADLOCK FALSE
