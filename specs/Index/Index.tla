---- MODULE Index ----
(***************************************************************************)
(* C21: indexes and UTXO statistics agree with recomputation from the      *)
(* active chain.                                                           *)
(*                                                                         *)
(* The chain side is UtxoChain (blocks with transactions over a fixed      *)
(* universe, most-work activation, invalidate / reconsider).  On top of it *)
(* this module models src/index/base.cpp and the four indexes operationally*)
(*   - BaseIndex: Init (best := top of the committed locator, synced iff   *)
(*     that is the tip), Sync (rewind to the fork with the active chain,   *)
(*     append up to the tip, commit), BlockConnected while synced (rewind  *)
(*     to the parent if needed, append), ChainStateFlushed -> Commit, and  *)
(*     Commit's rule "only if the index best block is an ancestor of the   *)
(*     chainstate's last flushed block"; Stop / destroy / re-create;       *)
(*   - txindex: (tx, block) entries, never removed, lookups prefer the     *)
(*     active chain;  txospenderindex: (outpoint, tx, block) entries,      *)
(*     erased on rewind;  blockfilterindex / coinstatsindex: one entry per *)
(*     height, copied to a by-hash table when a block is rewound, running  *)
(*     state in memory (last filter header; counts, amounts, MuHash as the *)
(*     set it commits to), restored at Init from the committed entry.      *)
(* F, the from-scratch definition, is computed from the chain alone        *)
(* (ReplayB of UtxoChain for the UTXO set; BIP158 element sets).           *)
(* Invariant: every block of the active chain that the index covers        *)
(* (ancestors of its best block; the whole chain once synced) answers      *)
(* lookups with F.                                                         *)
(***************************************************************************)
EXTENDS UtxoChain
CONSTANTS MaxRestarts,
          FileLimit,           \* size of one filter file (MAX_FLTR_FILE_SIZE) in the model's units: base chain = 1 unit, a block = 1 + number of its transactions
          PosBeforeRollover    \* FALSE: the record of an entry takes the position *after* the roll-over to the next file (the code)

VARIABLES ix,        \* the index (one record; the four indexes share BaseIndex and see the same events)
          flushed,   \* last block the chainstate flushed its coins at
          nrst
ivars == <<ix, flushed, nrst>>
allvars == <<vars, ivars>>
ViewI == <<View0, ix, flushed, nrst>>

None == 0 - 1
Heights == H0..(H0 + MaxBlocks)

\* ------------------------------------------------------------------ F: from scratch, from the chain alone
ConnOf(B, b) == ConnectB(B, b, ReplayB(B, B[b].parent))
CreatedBy(B, b) == LET r == ConnOf(B, b) IN
   \* coins of the block's outputs as they are when created (before any later spend inside the block removed them again is irrelevant:
   \* the index adds every spendable output and removes every spent prevout)
   UNION { {[o |-> o, c |-> Coin(VS(TxU[B[b].txs[i]].outs[o[2]].v), HeightB(B, b), FALSE)] : o \in OutsOf(B[b].txs[i])} : i \in 1..Len(B[b].txs) }
     \cup {[o |-> CbOp(b), c |-> r.view[CbOp(b)]]}
SpentBy(B, b) == LET r == ConnOf(B, b) IN
   UNION { {[o |-> o, c |-> r.spent[i][o]] : o \in DOMAIN r.spent[i]} : i \in 1..Len(r.spent) }
SetOf(V) == {[o |-> o, c |-> V[o]] : o \in DOMAIN V}
\* coin statistics at block b: the UTXO set, its size and its total amount
RECURSIVE SumV(_)
SumV(S) == IF S = {} THEN VZ ELSE LET x == CHOOSE y \in S : TRUE IN VAdd(x.c.v, SumV(S \ {x}))
FStats(B, b) == LET S == SetOf(ReplayB(B, b)) IN [mu |-> S, cnt |-> Cardinality(S), amt |-> SumV(S)]
\* BIP158 basic filter elements as script classes: created output scripts (no OP_RETURN) and spent prevout scripts.
\* every coinbase output pays the same P2PK script ("p2pk", also the base coins); universe outputs are of class "true" or "fail"
ClsOfOp(o) == IF o[1] <= 0 THEN "p2pk" ELSE TxU[o[1]].outs[o[2]].cls
FElems(B, b) == {"p2pk"} \cup {ClsOfOp(x.o) : x \in {y \in CreatedBy(B, b) : y.o[1] > 0}} \cup {ClsOfOp(x.o) : x \in SpentBy(B, b)}
FSpends(B, b) == UNION { {[o |-> InOp(B[b].txs[i], j), t |-> B[b].txs[i]] : j \in 1..NIn(B[b].txs[i])} : i \in 1..Len(B[b].txs) }
TxsOf(B, b) == {B[b].txs[i] : i \in 1..Len(B[b].txs)}

\* ------------------------------------------------------------------ the index, operationally
NoPos == [f |-> 0, p |-> 0]
NoEntry == [ok |-> FALSE, mu |-> {}, cnt |-> 0, amt |-> VZ, elems |-> {}, prevhdr |-> None, fp |-> NoPos]
\* ---- the flat-file store of the block filter index (fltrNNNNN.dat): WriteFilterToDisk / ReadFilterFromDisk
\* store = what the files hold: [f, p, s, b] = the s units starting at position p of file f are the filter of block b
FSize(B, b) == IF b = 0 THEN 1 ELSE 1 + Len(B[b].txs)
Overlaps(r, f, p, sz) == r.f = f /\ r.p < p + sz /\ p < r.p + r.s
\* returns [store, fpos (next position), at (where the bytes went), rec (the position the database entry records)]
WriteFilter(store, fpos, b, sz) ==
  LET roll == fpos.p + sz > FileLimit
      st1 == IF roll THEN {r \in store : ~(r.f = fpos.f /\ r.p >= fpos.p)} ELSE store          \* the full file is truncated at the position and committed
      at == IF roll THEN [f |-> fpos.f + 1, p |-> 0] ELSE fpos
      st2 == {r \in st1 : ~Overlaps(r, at.f, at.p, sz)} \cup {[f |-> at.f, p |-> at.p, s |-> sz, b |-> b]}
  IN [store |-> st2, fpos |-> [f |-> at.f, p |-> at.p + sz], at |-> at, rec |-> (IF PosBeforeRollover THEN fpos ELSE at)]
BytesAre(store, fp, b) == \E r \in store : r.f = fp.f /\ r.p = fp.p /\ r.b = b
BaseStats == [mu |-> SetOf(BaseUtxo), cnt |-> Cardinality(DOMAIN BaseUtxo), amt |-> SumV(SetOf(BaseUtxo))]
\* the base chain (genesis .. block 0) is indexed as one step; its entry is the model's block 0
Ix0 == [run |-> FALSE, synced |-> FALSE, best |-> None, commit |-> None, err |-> "none",
        dirty |-> FALSE,                              \* the database was modified since the last commit of the locator
        ferr |-> FALSE,                               \* the block filter index refused to start (the other indexes are independent of it)
        unclean |-> FALSE,                            \* ghost: the index was once re-created over a database that was ahead of its locator
        txi |-> {}, spd |-> {},
        ent |-> [b \in Ids |-> NoEntry],              \* what CustomAppend wrote for block b (last write wins)
        hkey |-> [h \in Heights |-> None],            \* which block's entry sits under the height key
        hashed |-> {},                                \* blocks whose entry was copied to the by-hash table
        cur |-> None, mu |-> {}, cnt |-> 0, amt |-> VZ, lasthdr |-> None,    \* running state (memory)
        cmu |-> {},                                   \* DB_MUHASH as of the last commit
        store |-> {}, fpos |-> NoPos,                 \* filter files and m_next_filter_pos (memory)
        cfpos |-> NoPos ]                             \* DB_FILTER_POS (written by Commit and by every CustomRemove)
Found(x, B, b) == x.hkey[HeightB(B, b)] = b \/ b \in x.hashed

\* CustomAppend of all four indexes for block b (b = 0 stands for the whole base chain)
IAppend(x, B, b) ==
  IF x.err # "none" THEN x
  ELSE IF b = 0 THEN
    LET wf == WriteFilter(x.store, x.fpos, 0, FSize(B, 0)) IN
    [x EXCEPT !.ent[0] = [ok |-> TRUE, mu |-> BaseStats.mu, cnt |-> BaseStats.cnt, amt |-> BaseStats.amt, elems |-> {"p2pk"}, prevhdr |-> None, fp |-> wf.rec],
              !.store = wf.store, !.fpos = wf.fpos,
              !.hkey[H0] = 0, !.cur = 0, !.mu = BaseStats.mu, !.cnt = BaseStats.cnt, !.amt = BaseStats.amt, !.lasthdr = 0, !.best = 0, !.dirty = TRUE]
  ELSE IF x.cur # B[b].parent THEN [x EXCEPT !.err = "append-on-wrong-parent"]          \* coinstatsindex: previous block header belongs to unexpected block
  ELSE LET cr == CreatedBy(B, b) sp == SpentBy(B, b)
           mu2 == (x.mu \cup cr) \ sp
           wf == WriteFilter(x.store, x.fpos, b, FSize(B, b))
           e == [ok |-> TRUE, mu |-> mu2, cnt |-> x.cnt + Cardinality(cr) - Cardinality(sp),
                 amt |-> [k |-> x.amt.k + SumV(cr).k - SumV(sp).k, s |-> x.amt.s + SumV(cr).s - SumV(sp).s],
                 elems |-> FElems(B, b), prevhdr |-> x.lasthdr, fp |-> wf.rec]
       IN [x EXCEPT !.store = wf.store, !.fpos = wf.fpos,
                    !.txi = @ \cup {<<t, b>> : t \in TxsOf(B, b)},
                    !.spd = @ \cup {<<y.o, y.t, b>> : y \in FSpends(B, b)},
                    !.ent[b] = e, !.hkey[HeightB(B, b)] = b,
                    !.cur = b, !.mu = e.mu, !.cnt = e.cnt, !.amt = e.amt, !.lasthdr = b, !.best = b, !.dirty = TRUE]
\* CustomRemove for block b (b # 0)
IRemove(x, B, b) ==
  IF x.err # "none" THEN x
  ELSE LET p == B[b].parent
           occupant == x.hkey[HeightB(B, b)]
           x1 == [x EXCEPT !.hashed = IF occupant = None THEN @ ELSE @ \cup {occupant}]          \* CopyHeightIndexToHashIndex copies whatever is there
       IN IF ~Found(x1, B, p) THEN [x1 EXCEPT !.err = "rewind-parent-entry-missing"]
          ELSE LET cr == CreatedBy(B, b) sp == SpentBy(B, b)
                   mu2 == (x1.mu \ (cr \ sp)) \cup (sp \ cr) IN       \* MuHash is a group: an output created and spent inside the block cancels
               IF mu2 # x1.ent[p].mu THEN [x1 EXCEPT !.err = "rewind-muhash-mismatch"]          \* Assert(read_out.second.muhash == out)
               ELSE [x1 EXCEPT !.spd = {y \in @ : y[3] # b}, !.cfpos = x1.fpos,
                               !.cur = p, !.mu = mu2, !.cnt = x1.ent[p].cnt, !.amt = x1.ent[p].amt, !.lasthdr = p, !.best = p, !.dirty = TRUE]
RECURSIVE RewindTo(_, _, _)
RewindTo(x, B, f) == IF x.best = f \/ x.err # "none" THEN x ELSE RewindTo(IRemove(x, B, x.best), B, f)
RECURSIVE AppendAll(_, _, _)
AppendAll(x, B, path) == IF path = <<>> THEN x ELSE AppendAll(IAppend(x, B, Head(path)), B, Tail(path))
\* BaseIndex::Commit: nothing indexed yet, or index best not an ancestor of the last flushed block -> skipped
Commit(x, B, fl) == IF x.err = "none" /\ x.best # None /\ fl # None /\ x.best \in AncB(B, fl) THEN [x EXCEPT !.commit = x.best, !.cmu = x.mu, !.cfpos = x.fpos, !.dirty = FALSE] ELSE x
\* BaseIndex::BlockConnected for block b while synced
OnConnected(x, B, b) ==
  IF ~(x.run /\ x.synced) \/ x.err # "none" THEN x
  ELSE IF B[b].parent \notin AncB(B, x.best) THEN x          \* "does not connect to an ancestor of known best chain": ignored
  ELSE IAppend(RewindTo(x, B, B[b].parent), B, b)
RECURSIVE OnConnectedAll(_, _, _)
OnConnectedAll(x, B, log) == IF log = <<>> THEN x ELSE OnConnectedAll(OnConnected(x, B, Head(log)), B, Tail(log))
\* BaseIndex::Sync from the current best block to the tip t
SyncTo(x, B, t, fl) ==
  LET x0 == IF x.best = None THEN IAppend(x, B, 0) ELSE x
      f == LCAB(B, x0.best, t)
      x1 == RewindTo(x0, B, f)
      x2 == AppendAll(x1, B, OrdB(B, AncB(B, t) \ AncB(B, f)))
  IN [Commit(x2, B, fl) EXCEPT !.synced = (x2.err = "none")]

\* ------------------------------------------------------------------ the chain actions with the connect log
\* Activate of UtxoChain, additionally returning the sequence of blocks connected (BlockConnected notifications)
RECURSIVE ActivateL(_, _, _, _)
ActivateL(B, S, st, log) ==
  LET cands == {b \in S : Eligible(B, S, st.failed, b)}
      best == CHOOSE b \in cands : \A c \in cands \ {b} : HeightB(B, c) < HeightB(B, b) \/ (HeightB(B, c) = HeightB(B, b) /\ c > b)
  IN IF best = st.tip THEN log
     ELSE LET f == LCAB(B, st.tip, best)
              RECURSIVE Down(_, _)
              Down(t, u) == IF t = f THEN u ELSE Down(B[t].parent, DisconnectB(B, t, st.undo[t], u))
              u0 == Down(st.tip, st.utxo)
              RECURSIVE Up(_, _)
              Up(path, s) == IF path = <<>> THEN [s EXCEPT !.ok = TRUE]
                             ELSE LET c == Head(path) r == ConnectB(B, c, s.utxo) IN
                                  IF ~r.ok THEN [s EXCEPT !.ok = FALSE, !.failed = s.failed \cup {x \in S : c \in AncB(B, x)}]
                                  ELSE Up(Tail(path), [s EXCEPT !.tip = c, !.utxo = r.view, !.undo[c] = r.spent, !.log = Append(s.log, c)])
              s1 == Up(OrdB(B, AncB(B, best) \ AncB(B, f)),
                       [tip |-> f, utxo |-> u0, undo |-> st.undo, failed |-> st.failed, ok |-> TRUE, bad |-> {}, log |-> log])
          IN IF s1.ok THEN s1.log ELSE ActivateL(B, S, [tip |-> s1.tip, utxo |-> s1.utxo, undo |-> s1.undo, failed |-> s1.failed, ok |-> TRUE, bad |-> {}], s1.log)

InitI == Init /\ ix = Ix0 /\ flushed = None /\ nrst = 0
\* the base chain is never flushed by the harness: `flushed` = None stands for the genesis block (an ancestor of everything, never of index best)

IMine(p, txs, cb, dt) ==
  /\ Mine(p, txs, cb, dt)
  /\ LET b == n + 1
         B2 == [blk EXCEPT ![b] = [parent |-> p, txs |-> txs, cb |-> cb, dt |-> dt]]
         log == IF CheckBlockOK(txs) /\ ContextualOK(B2, b) THEN ActivateL(B2, stored \cup {b}, St0, <<>>) ELSE <<>>
     IN ix' = OnConnectedAll(ix, B2, log)
  /\ UNCHANGED <<flushed, nrst>>
IInvalidate(b) ==
  /\ Invalidate(b)
  /\ ix' = OnConnectedAll(ix, blk, ActivateL(blk, stored, [St0 EXCEPT !.failed = failed \cup {x \in stored : b \in AncB(blk, x)}], <<>>))
  /\ UNCHANGED <<flushed, nrst>>
IReconsider(b) ==
  /\ Reconsider(b)
  /\ ix' = OnConnectedAll(ix, blk, ActivateL(blk, stored, [St0 EXCEPT !.failed = failed \ {x \in failed : b \in AncB(blk, x) \/ x \in AncB(blk, b)}], <<>>))
  /\ UNCHANGED <<flushed, nrst>>
\* ForceFlushStateToDisk: the coins are flushed at the tip; ChainStateFlushed reaches the index (synced only; locator tip must be an ancestor of best)
chainvars == <<world, node, ninv>>
Flush ==
  /\ flushed # tip
  /\ flushed' = tip
  /\ ix' = IF ix.run /\ ix.synced /\ ix.best # None /\ tip \in AncB(blk, ix.best) THEN Commit(ix, blk, tip) ELSE ix
  /\ UNCHANGED <<chainvars, nrst>>

\* construct + Init: best := committed locator; coinstats restores its running state from the committed entry and DB_MUHASH
IStart ==
  /\ ~ix.run /\ nrst < MaxRestarts
  /\ LET c == ix.commit
         okc == c = None \/ (Found(ix, blk, c) /\ ix.ent[c].mu = ix.cmu)       \* coinstatsindex: LookUpOne (height key, else by-hash table) and DB_MUHASH
         okf == c = None \/ Found(ix, blk, c)                                   \* blockfilterindex: LookUpOne as well (since /repo c07c1d6; before, ReadFilterHeader
                                                                               \* read the height key only and Init failed when another branch had taken it)
         e == IF ~okc THEN "coinstats-init-entry-mismatch" ELSE "none"
     IN ix' = IF e # "none" THEN [ix EXCEPT !.run = TRUE, !.err = e, !.unclean = (@ \/ ix.dirty)]
              ELSE [ix EXCEPT !.run = TRUE, !.best = c, !.synced = (c = tip), !.cur = c, !.unclean = (@ \/ ix.dirty), !.ferr = ~okf, !.fpos = ix.cfpos,
                              !.mu = (IF c = None THEN {} ELSE ix.cmu), !.cnt = (IF c = None THEN 0 ELSE ix.ent[c].cnt),
                              !.amt = (IF c = None THEN VZ ELSE ix.ent[c].amt), !.lasthdr = c]
  /\ nrst' = nrst + 1 /\ UNCHANGED <<chainvars, flushed>>
ISync ==
  /\ ix.run /\ ~ix.synced /\ ix.err = "none"
  /\ ix' = SyncTo(ix, blk, tip, flushed)
  /\ UNCHANGED <<chainvars, flushed, nrst>>
IStop ==
  /\ ix.run
  /\ ix' = [ix EXCEPT !.run = FALSE, !.synced = FALSE, !.ferr = FALSE, !.best = None, !.cur = None, !.mu = {}, !.cnt = 0, !.amt = VZ, !.lasthdr = None]
  /\ UNCHANGED <<chainvars, flushed, nrst>>

NextI == \/ \E p \in Ids, txs \in Lists, cb \in CbModes, dt \in Dts : IMine(p, txs, cb, dt)
         \/ \E b \in Ids : IInvalidate(b) \/ IReconsider(b)
         \/ (Flush /\ lastAct' = <<"flush">> /\ lastRes' = <<"none">>)
         \/ (IStart /\ lastAct' = <<"istart">> /\ lastRes' = <<"none">>)
         \/ (ISync /\ lastAct' = <<"isync">> /\ lastRes' = <<"none">>)
         \/ (IStop /\ lastAct' = <<"istop">> /\ lastRes' = <<"none">>)

\* ------------------------------------------------------------------ the property
\* blocks of the active chain the index must answer for: ancestors of its best block on the active chain
Covered == IF ix.run /\ ix.best # None THEN AncB(blk, tip) \cap AncB(blk, ix.best) ELSE {}
NoIndexError == ix.err = "none"
\* (no index ever refuses to start or hits an internal consistency error, unclean restarts included)
NoIndexErrorClean == ix.err = "none" /\ ~ix.ferr
OnlyKnownError == ix.err = "none"
NoFilterInitFailure == ~ix.ferr
\* once synced (and the notification queue is drained, which every step of the model includes) the whole active chain is covered
SyncedCoversChain == (ix.run /\ ix.synced) => AncB(blk, tip) \subseteq Covered
TxIndexAgrees == \A b \in Covered \ {0} : \A t \in TxsOf(blk, b) : <<t, b>> \in ix.txi
SpenderAgrees == \A b \in Covered \ {0} : \A y \in FSpends(blk, b) : <<y.o, y.t, b>> \in ix.spd
\* stronger: no entry names a spender outside the active chain for an outpoint the active chain spends (a lookup could return it)
SpenderNoStale == \A b \in Covered \ {0} : \A y \in FSpends(blk, b) : \A z \in ix.spd : z[1] = y.o => z[3] \in AncB(blk, tip)
\* The spender index erases and writes entries at once while its locator is only committed after the chainstate was flushed: after a
\* re-creation over a database that is ahead of the locator the two spender clauses do not hold in general (TLC re-derives the
\* counterexamples from MC_unclean.cfg in every run); they are required of every history without such a restart.
SpenderAgreesClean == ~ix.unclean => (SpenderAgrees /\ SpenderNoStale)
EntriesFound == \A b \in Covered : Found(ix, blk, b) /\ ix.ent[b].ok
CoinStatsAgree == \A b \in Covered \ {0} : LET f == FStats(blk, b) e == ix.ent[b] IN e.mu = f.mu /\ e.cnt = f.cnt /\ e.amt = f.amt
FiltersAgree == ~ix.ferr => \A b \in Covered \ {0} : ix.ent[b].elems = FElems(blk, b) /\ ix.ent[b].prevhdr = blk[b].parent
\* the flat-file layer: for every covered block the bytes at the position its entry records are its filter
FilterBytesAgree == ~ix.ferr => \A b \in Covered : BytesAre(ix.store, ix.ent[b].fp, b)
\* ... and so are those of every reorged-out block that is still found through the by-hash table (histories without an unclean restart)
StaleFilterBytesAgree == (~ix.ferr /\ ~ix.unclean /\ ix.run) => \A b \in 0..n : (ix.ent[b].ok /\ Found(ix, blk, b)) => BytesAre(ix.store, ix.ent[b].fp, b)
RunningStateAgrees == (ix.run /\ ix.best # None /\ ix.best # 0 /\ ix.best \in AncB(blk, tip)) => ix.mu = FStats(blk, ix.best).mu
CommitBehindFlush == ix.commit = None \/ flushed # None

\* ------------------------------------------------------------------ emission: the expected lookups
ChainRows == LET path == OrdB(blk, AncB(blk, tip) \ {0}) IN
  [i \in 1..Len(path) |-> LET b == path[i] f == FStats(blk, b) IN
     [b |-> b, txs |-> blk[b].txs, utxo |-> UtxoList(ReplayB(blk, b)), cnt |-> f.cnt, k |-> f.amt.k, s |-> f.amt.s,
      elems |-> FElems(blk, b), spends |-> {[t |-> y.o[1], i |-> y.o[2], by |-> y.t] : y \in FSpends(blk, b)},
      covered |-> b \in Covered, clean |-> ~ix.unclean]]
IxObs == [ferr |-> ix.ferr, run |-> ix.run, synced |-> ix.synced, best |-> ix.best, commit |-> ix.commit, err |-> ix.err, basecovered |-> 0 \in Covered,
          basecnt |-> BaseStats.cnt, bases |-> BaseStats.amt.s]
ProjI == [world |-> World, obs |-> Obs, ix |-> IxObs, rows |-> ChainRows]
\* cheap state key (the database content of the index is a function of the history; the scalars below tell successors apart)
KeyI == [n |-> n, blk |-> blk, tip |-> tip, stored |-> stored, failed |-> failed, ninv |-> ninv, flushed |-> flushed, nrst |-> nrst,
         run |-> ix.run, synced |-> ix.synced, best |-> ix.best, commit |-> ix.commit, dirty |-> ix.dirty, unclean |-> ix.unclean, err |-> ix.err, ferr |-> ix.ferr]
\* Edges carry only the cheap keys; the expected lookups of a state are printed once per visited state by the invariant EmitRows
\* (TLC does not cache LET definitions while evaluating primed expressions: ChainRows' costs seconds, ChainRows milliseconds).
EmitI == VFEdgeK(KeyI, KeyI, lastAct', lastRes', KeyI', KeyI')
EmitRows == VFRow([key |-> KeyI, ix |-> IxObs, rows |-> ChainRows])
====
