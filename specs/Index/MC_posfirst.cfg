CONSTANTS
  MaxBlocks = 2
  MaxInv = 1
  FileLimit = 3
  PosBeforeRollover = TRUE
  MaxRestarts = 2
  TxU <- TxUDef
  Lists <- ListsA
  CbModes = {"max"}
  Dts = {1}
  H0 = 101
  BaseDt = 1
  BaseCoins <- BaseDef
INIT InitI
NEXT NextI
VIEW ViewI
INVARIANTS FilterBytesAgree
CHECK_DEADLOCK FALSE
