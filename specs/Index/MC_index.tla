---- MODULE MC_index ----
EXTENDS Index, Uni_index
====
