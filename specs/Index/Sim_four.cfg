CONSTANTS
  MaxBlocks = 4
  MaxInv = 2
  FileLimit = 3
  PosBeforeRollover = FALSE
  MaxRestarts = 3
  TxU <- TxUDef
  Lists <- ListsThorough
  CbModes = {"max"}
  Dts = {1}
  H0 = 101
  BaseDt = 1
  BaseCoins <- BaseDef
INIT InitI
NEXT NextI
VIEW ViewI
INVARIANTS UtxoIsReplay NoIndexErrorClean OnlyKnownError SyncedCoversChain TxIndexAgrees SpenderAgreesClean EntriesFound CoinStatsAgree FiltersAgree FilterBytesAgree StaleFilterBytesAgree RunningStateAgrees CommitBehindFlush EmitRows
ACTION_CONSTRAINT EmitI
CHECK_DEADLOCK FALSE
