CONSTANTS
  MaxBlocks = 4
  MaxInv = 3
  FileLimit = 3
  PosBeforeRollover = FALSE
  MaxRestarts = 3
  TxU <- TxUDef
  Lists <- ListsThorough
  CbModes = {"max"}
  Dts = {1}
  H0 = 101
  BaseDt = 1
  BaseCoins <- BaseDef
INIT InitS
NEXT NextS
VIEW ViewS
INVARIANTS UtxoIsReplay NoIndexErrorClean OnlyKnownError SyncedCoversChain TxIndexAgrees SpenderAgreesClean EntriesFound CoinStatsAgree FiltersAgree FilterBytesAgree StaleFilterBytesAgree RunningStateAgrees EmitRowsS
ACTION_CONSTRAINT EmitS
CHECK_DEADLOCK FALSE
