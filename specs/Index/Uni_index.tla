---- MODULE Uni_index ----
(* Universe for C21: two mature base coins of 1000 sat; a spend, a conflicting spend, a child with an unspendable second output,   *)
(* a transaction spending both base coins.  Conflicting spends on competing branches are what index rewinds have to get right.     *)
EXTENDS Integers, Sequences
F == [kind |-> "final", v |-> 0]
NoLock == [kind |-> "none", v |-> 0]
In(t, i) == [op |-> <<t, i>>, seq |-> F]
Out(v) == [v |-> v, cls |-> "true"]
Tx(ins, outs) == [ins |-> ins, outs |-> outs, ver |-> 1, lock |-> NoLock]
TxUDef == <<
  Tx(<<In(0,1)>>, <<Out(400), Out(500)>>),                          \* 1: spends base coin 1, fee 100
  Tx(<<In(0,1)>>, <<Out(900)>>),                                    \* 2: conflicts with 1
  Tx(<<In(1,1)>>, <<Out(300), [v |-> 0, cls |-> "opret"]>>),        \* 3: child of 1 (unspendable second output)
  Tx(<<In(0,2), In(1,2)>>, <<[v |-> 700, cls |-> "fail"], Out(600)>>) \* 4: spends base coin 2 and an output of 1
>>
ListsQuick == { <<>>, <<1>>, <<2>>, <<1,3>> }
ListsA == { <<>>, <<1>>, <<2>> }
ListsThorough == { <<>>, <<1>>, <<2>>, <<1,3>>, <<3>>, <<1,4>>, <<4>> }
BaseDef == << [v |-> 1000, h |-> 1], [v |-> 1000, h |-> 2] >>
====
