---- MODULE Scenarios ----
(* Directed behaviours of the Index specification: each script is a sequence of actions (as they appear in lastAct) that the       *)
(* specification must be able to take in that order; TLC walks them and prints the edges and the expected lookups for replay.      *)
EXTENDS Index, Uni_index
VARIABLES sc, pc
M(p, txs) == <<"mine", p, txs, "max", 1>>
Scripts == [
  \* committed at b1, reorg to b2-b3 handled while synced (entries of b1 erased at once, locator not committed), index stopped,
  \* chain returns to b1, index re-created: it believes it is in sync with b1
  erased_then_back |-> << M(0, <<2>>), M(0, <<1>>), <<"flush">>, <<"istart">>, <<"isync">>, M(2, <<>>), <<"istop">>, <<"invalidate", 3>>, <<"istart">> >>,
  \* same transaction in two competing blocks, index never committed, re-created after the reorg: the entry of the stale block stays
  stale_block |-> << M(0, <<1>>), M(0, <<1>>), <<"istart">>, <<"isync">>, <<"istop">>, M(2, <<>>), <<"istart">>, <<"isync">> >>,
  \* the clean counterparts: flush (=> commit) before the stop
  erased_then_back_clean |-> << M(0, <<2>>), M(0, <<1>>), <<"flush">>, <<"istart">>, <<"isync">>, M(2, <<>>), <<"flush">>, <<"istop">>, <<"invalidate", 3>>, <<"istart">>, <<"isync">> >>,
  stale_block_clean |-> << M(0, <<1>>), M(0, <<1>>), <<"istart">>, <<"isync">>, <<"flush">>, <<"istop">>, M(2, <<>>), <<"istart">>, <<"isync">> >>,
  \* reorg between conflicting spends while synced, back and forth, with a child transaction and a flush in between
  synced_reorgs |-> << <<"istart">>, <<"isync">>, M(0, <<1, 3>>), M(0, <<2>>), <<"invalidate", 1>>, <<"flush">>, <<"reconsider", 1>>, M(1, <<4>>), <<"invalidate", 3>>, <<"flush">>, <<"istop">>, <<"istart">>, M(1, <<>>) >>,
  \* the same transaction in two competing blocks, both indexed, the chain returns to the one that was indexed first
  same_tx_back_and_forth |-> << M(0, <<1>>), M(0, <<1>>), <<"istart">>, <<"isync">>, <<"invalidate", 1>>, <<"reconsider", 1>>, <<"flush">>, M(1, <<3>>) >>,
  \* index behind the tip during a reorg: started before the fork wins, synced afterwards
  behind_during_reorg |-> << M(0, <<1>>), <<"flush">>, <<"istart">>, <<"isync">>, <<"istop">>, M(0, <<2>>), M(2, <<>>), <<"istart">>, <<"isync">>, <<"invalidate", 2>>, M(1, <<3>>), <<"flush">> >>
]
InitS == InitI /\ sc \in DOMAIN Scripts /\ pc = 1
Step(a) == CASE a[1] = "mine" -> IMine(a[2], a[3], a[4], a[5])
             [] a[1] = "invalidate" -> IInvalidate(a[2])
             [] a[1] = "reconsider" -> IReconsider(a[2])
             [] a[1] = "flush" -> Flush /\ lastAct' = a /\ lastRes' = <<"none">>
             [] a[1] = "istart" -> IStart /\ lastAct' = a /\ lastRes' = <<"none">>
             [] a[1] = "isync" -> ISync /\ lastAct' = a /\ lastRes' = <<"none">>
             [] a[1] = "istop" -> IStop /\ lastAct' = a /\ lastRes' = <<"none">>
NextS == /\ pc <= Len(Scripts[sc]) /\ Step(Scripts[sc][pc]) /\ pc' = pc + 1 /\ UNCHANGED sc
\* every script can be walked to its end
Walked == TRUE
ViewS == <<ViewI, sc, pc>>
KeyS == [k |-> KeyI, sc |-> sc, pc |-> pc]
EmitS == VFEdgeK(KeyS, KeyS, lastAct', lastRes', KeyS', KeyS')
EmitRowsS == VFRow([key |-> KeyS, ix |-> IxObs, rows |-> ChainRows, tip |-> tip, done |-> pc > Len(Scripts[sc])])
====
