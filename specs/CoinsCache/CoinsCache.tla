---- MODULE CoinsCache ----
(***************************************************************************)
(* Layered UTXO caches (src/coins.cpp, CCoinsViewCache) over the coins     *)
(* database.  Layer 1 sits directly above the database, layer NLayers is   *)
(* the top.  Every action is one public call of CCoinsViewCache; the       *)
(* FRESH/DIRTY bookkeeping and the BatchWrite merge are modelled as coded. *)
(* `model[l]` is the plain map the property C15 compares each layer with.  *)
(***************************************************************************)
EXTENDS Integers, Sequences, FiniteSets, TLC, VF
CONSTANTS Outpoints, Coins, NLayers
Layers == 1..NLayers
NoCoin == "nocoin"
Spent == "spent"
None == [coin |-> "absent", dirty |-> FALSE, fresh |-> FALSE]   \* no entry in the cache map
CoinOrNone == Coins \cup {NoCoin}
VARIABLES db, cache, model, err, lastAct, lastRes
vars == <<db, cache, model, err, lastAct, lastRes>>

\* What layer l answers for o without caching (PeekCoin); layer 0 is the database
RECURSIVE View(_, _)
View(l, o) == IF l = 0 THEN db[o]
              ELSE IF cache[l][o] # None
                   THEN (IF cache[l][o].coin = Spent THEN NoCoin ELSE cache[l][o].coin)
                   ELSE View(l - 1, o)

Init == /\ db \in [Outpoints -> CoinOrNone]
        /\ cache = [l \in Layers |-> [o \in Outpoints |-> None]]
        /\ model = [l \in Layers |-> db]
        /\ err = FALSE
        /\ lastAct = <<"init">> /\ lastRes = "none"

\* FetchCoin: GetCoin on the base populates every layer below as well (base->GetCoin is itself caching)
RECURSIVE Fetched(_, _, _)
Fetched(c, l, o) ==
  IF l = 0 \/ c[l][o] # None THEN c
  ELSE LET c2 == Fetched(c, l - 1, o)
           v == IF l = 1 THEN db[o]
                ELSE (IF c2[l-1][o] = None \/ c2[l-1][o].coin = Spent THEN NoCoin ELSE c2[l-1][o].coin)
       IN IF v = NoCoin THEN c2
          ELSE [c2 EXCEPT ![l][o] = [coin |-> v, dirty |-> FALSE, fresh |-> FALSE]]

EntryCoin(e) == IF e = None \/ e.coin = Spent THEN NoCoin ELSE e.coin

\* AccessCoin / GetCoin / HaveCoin: fetch-through, result is the unspent coin or nothing
Access(l, o, kind) ==
  /\ cache' = Fetched(cache, l, o)
  /\ UNCHANGED <<db, model, err>>
  /\ lastAct' = <<kind, l, o>>
  /\ lastRes' = LET v == EntryCoin(Fetched(cache, l, o)[l][o]) IN
                IF kind = "have" THEN (IF v = NoCoin THEN "false" ELSE "true") ELSE v

\* PeekCoin / HaveCoinInCache: no caching, no state change
Peek(l, o) ==
  /\ UNCHANGED <<db, cache, model, err>>
  /\ lastAct' = <<"peek", l, o>>
  /\ lastRes' = View(l, o)
HaveInCache(l, o) ==
  /\ UNCHANGED <<db, cache, model, err>>
  /\ lastAct' = <<"haveincache", l, o>>
  /\ lastRes' = IF EntryCoin(cache[l][o]) = NoCoin THEN "false" ELSE "true"

\* AddCoin(possible_overwrite). Caller contract (coins.h): overwrite = FALSE only if the view has no unspent o.
\* An unspent entry in *this* cache with overwrite = FALSE is detected by the code: logic_error, nothing changes.
AddCoin(l, o, c, ow) ==
  LET e == cache[l][o] IN
  IF ~ow /\ e # None /\ e.coin # Spent
  THEN /\ UNCHANGED <<db, cache, model, err>>
       /\ lastAct' = <<"add", l, o, c, ow>> /\ lastRes' = "throw"
  ELSE /\ (~ow) => View(l, o) = NoCoin
       /\ LET \* flags are OR-ed in: an existing FRESH flag survives an overwrite
              fresh == (e # None /\ e.fresh) \/ (IF ow THEN FALSE ELSE (IF e = None THEN TRUE ELSE ~e.dirty))
          IN cache' = [cache EXCEPT ![l][o] = [coin |-> c, dirty |-> TRUE, fresh |-> fresh]]
       /\ model' = [k \in Layers |-> IF k >= l THEN [model[k] EXCEPT ![o] = c] ELSE model[k]]
       /\ UNCHANGED <<db, err>>
       /\ lastAct' = <<"add", l, o, c, ow>> /\ lastRes' = "ok"

\* SpendCoin: returns whether an entry (even a spent one) was found after fetching
SpendCoin(l, o) ==
  LET c1 == Fetched(cache, l, o) IN
  /\ IF c1[l][o] = None THEN cache' = c1
     ELSE IF c1[l][o].fresh THEN cache' = [c1 EXCEPT ![l][o] = None]
     ELSE cache' = [c1 EXCEPT ![l][o] = [coin |-> Spent, dirty |-> TRUE, fresh |-> FALSE]]
  /\ model' = [k \in Layers |-> IF k >= l THEN [model[k] EXCEPT ![o] = NoCoin] ELSE model[k]]
  /\ UNCHANGED <<db, err>>
  /\ lastAct' = <<"spend", l, o>>
  /\ lastRes' = IF c1[l][o] = None THEN "false" ELSE "true"

\* Uncache: drops a clean entry, ignores dirty / absent ones
Uncache(l, o) ==
  /\ cache' = IF cache[l][o] # None /\ ~cache[l][o].dirty THEN [cache EXCEPT ![l][o] = None] ELSE cache
  /\ UNCHANGED <<db, model, err>>
  /\ lastAct' = <<"uncache", l, o>> /\ lastRes' = "none"

\* BatchWrite of child entry ce into parent entry pe; <<new parent entry, logic_error>>
Merge(pe, ce) ==
  IF ~ce.dirty THEN <<pe, FALSE>>
  ELSE IF pe = None
       THEN IF ce.fresh /\ ce.coin = Spent THEN <<None, FALSE>>
            ELSE <<[coin |-> ce.coin, dirty |-> TRUE, fresh |-> ce.fresh], FALSE>>
       ELSE IF ce.fresh /\ pe.coin # Spent THEN <<pe, TRUE>>
            ELSE IF pe.fresh /\ ce.coin = Spent THEN <<None, FALSE>>
                 ELSE <<[coin |-> ce.coin, dirty |-> TRUE, fresh |-> pe.fresh], FALSE>>

AfterWrite(e, erase) == IF erase \/ e = None \/ e.coin = Spent THEN None
                        ELSE [e EXCEPT !.dirty = FALSE, !.fresh = FALSE]

\* Flush (erase = TRUE) / Sync (erase = FALSE) of layer l into its parent
WriteDown(l, erase) ==
  /\ IF l = 1
     THEN /\ db' = [o \in Outpoints |->
                     IF cache[1][o] # None /\ cache[1][o].dirty THEN EntryCoin(cache[1][o]) ELSE db[o]]
          /\ cache' = [cache EXCEPT ![1] = [o \in Outpoints |-> AfterWrite(cache[1][o], erase)]]
          /\ err' = err
     ELSE /\ db' = db
          /\ LET m == [o \in Outpoints |->
                        IF cache[l][o] = None THEN <<cache[l-1][o], FALSE>>
                        ELSE Merge(cache[l-1][o], cache[l][o])]
             IN /\ cache' = [cache EXCEPT ![l-1] = [o \in Outpoints |-> m[o][1]],
                                          ![l] = [o \in Outpoints |-> AfterWrite(cache[l][o], erase)]]
                /\ err' = (err \/ \E o \in Outpoints : m[o][2])
  /\ model' = IF l = 1 THEN model ELSE [model EXCEPT ![l-1] = model[l]]
  /\ lastAct' = <<IF erase THEN "flush" ELSE "sync", l>> /\ lastRes' = "none"

\* Reset: forget everything in layer l without writing it
Reset(l) ==
  /\ cache' = [cache EXCEPT ![l] = [o \in Outpoints |-> None]]
  /\ model' = [k \in Layers |-> IF k >= l THEN (IF l = 1 THEN db ELSE model[l-1]) ELSE model[k]]
  /\ UNCHANGED <<db, err>>
  /\ lastAct' = <<"reset", l>> /\ lastRes' = "none"

\* A lower layer is only used directly while every layer above it is empty (that is how the code stacks views)
Usable(l) == \A k \in Layers : k > l => \A o \in Outpoints : cache[k][o] = None

Next ==
  \/ \E l \in Layers, o \in Outpoints : Usable(l) /\
       (Access(l, o, "access") \/ Access(l, o, "have") \/ Peek(l, o) \/ HaveInCache(l, o) \/ SpendCoin(l, o) \/ Uncache(l, o))
  \/ \E l \in Layers, o \in Outpoints, c \in Coins, ow \in BOOLEAN : Usable(l) /\ AddCoin(l, o, c, ow)
  \/ \E l \in Layers, er \in BOOLEAN : Usable(l) /\ WriteDown(l, er)
  \/ \E l \in Layers : Usable(l) /\ Reset(l)
Spec == Init /\ [][Next]_vars

----
\* C15: every usable layer answers like the plain map
ModelMatches == \A l \in Layers : Usable(l) => \A o \in Outpoints : View(l, o) = model[l][o]
\* flag sanity (CCoinsViewCache::SanityCheck)
Sane == \A l \in Layers, o \in Outpoints : cache[l][o] # None =>
          /\ (cache[l][o].coin = Spent => cache[l][o].dirty /\ ~cache[l][o].fresh)
          /\ (cache[l][o].fresh => cache[l][o].dirty)
\* FRESH means the parent view has no unspent coin: otherwise erasing on spend would resurrect it
FreshOK == \A l \in Layers, o \in Outpoints :
             (cache[l][o] # None /\ cache[l][o].fresh) => View(l - 1, o) = NoCoin
\* a clean entry is a copy of what the parent view holds (otherwise dropping or not writing it loses information)
CleanOK == \A l \in Layers, o \in Outpoints :
             (cache[l][o] # None /\ ~cache[l][o].dirty) => (cache[l][o].coin # Spent /\ cache[l][o].coin = View(l - 1, o))
NoErr == ~err
\* after Flush/Sync of l the parent view equals the child's map, and no spent coin came back / unspent was lost
WriteDownOK == [][\A l \in Layers : (lastAct'[1] \in {"flush", "sync"} /\ lastAct'[2] = l) =>
                    \A o \in Outpoints : View(l - 1, o)' = model[l][o] /\ model'[l][o] = model[l][o]]_vars

DirtyCount(l) == Cardinality({o \in Outpoints : cache[l][o] # None /\ cache[l][o].dirty})
Size(l) == Cardinality({o \in Outpoints : cache[l][o] # None})
\* projection compared with the implementation: `view` (non-caching lookups of each usable layer) and `db` are what
\* the property talks about; `cache` (the flags) is internal bookkeeping
ViewOf(l) == IF Usable(l) THEN [o \in Outpoints |-> View(l, o)] ELSE [o \in Outpoints |-> "unusable"]
Proj == [db |-> db, view |-> [l \in Layers |-> ViewOf(l)], cache |-> cache]
View0 == <<db, cache, model, err>>
Emit == VFEdge(Proj, lastAct', lastRes', Proj')
====
