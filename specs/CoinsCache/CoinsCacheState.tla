---- MODULE CoinsCacheState ----
(* Evaluates the CoinsCache invariants on states observed in the *implementation* (deviation handling, DESIGN 8):  *)
(* each line of the file named by env STATES is {db, cache, view}; `model` is taken to be the recorded view of the  *)
(* expected (plain map) model, carried in the line as `model`.                                                      *)
EXTENDS CoinsCache, Json, IOUtils
States == ndJsonDeserialize(IOEnv.STATES)
InitFrom == \E i \in 1..Len(States) :
              /\ db = States[i].db /\ cache = States[i].cache /\ model = States[i].model
              /\ err = FALSE /\ lastAct = <<"observed", i>> /\ lastRes = "none"
Stutter == UNCHANGED vars
====
