CONSTANTS
  Outpoints = {"o1", "o2"}
  Coins = {"c1", "c2"}
  NLayers = 2
INIT InitFrom
NEXT Stutter
INVARIANTS ModelMatches Sane FreshOK CleanOK
CHECK_DEADLOCK FALSE
