CONSTANTS
  Outpoints = {"o1", "o2", "o3"}
  Coins = {"c1", "c2"}
  NLayers = 2
INIT Init
NEXT Next
VIEW View0
INVARIANTS ModelMatches Sane FreshOK CleanOK NoErr
ACTION_CONSTRAINT Emit
CHECK_DEADLOCK FALSE
