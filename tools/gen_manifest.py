#!/usr/bin/env python3
"""Builds MANIFEST.json from the META dict of every props/<ID>.py and props/not_applicable.json."""
import importlib.util, json, os, subprocess, sys
ROOT = os.path.dirname(os.path.dirname(os.path.abspath(__file__)))
sys.path.insert(0, os.path.join(ROOT, "tools"))
props = [json.loads(l) for l in open(os.path.join(ROOT, "properties.jsonl"))]
ids = [p["id"] for p in props]
na = json.load(open(os.path.join(ROOT, "props", "not_applicable.json")))
checks, engines = [], {}
claimed = set()
# only checks that have been reviewed and pass on the unchanged tree are registered (props/READY, one id per line)
ready = set(l.strip() for l in open(os.path.join(ROOT, "props", "READY")) if l.strip() and not l.startswith("#"))
for pid in ids:
    f = os.path.join(ROOT, "props", pid + ".py")
    if not os.path.exists(f) or pid not in ready:
        continue
    spec = importlib.util.spec_from_file_location("prop_" + pid, f)
    mod = importlib.util.module_from_spec(spec); spec.loader.exec_module(mod)
    M = mod.META
    claimed.add(pid)
    c = dict(property_id=pid, quick_cmd="./check %s --tier quick" % pid, thorough_cmd="./check %s --tier thorough" % pid,
             evidence_file="/verif/evidence/%s.json" % pid, replay_cmd_template="./check %s --replay {path}" % pid,
             engine=M["engine"],
             level_claimed=dict(category=M.get("level", "model_checking"), text=M["text"], design_ref=M.get("design_ref", "DESIGN.md section 5, " + pid)),
             level_note=M["note"], technique=M.get("technique", "TLA+ specification checked by TLC; TLC-generated behaviours replayed on the implementation"))
    checks.append(c)
    engines.setdefault(M["engine"], []).append(pid)
not_app = []
for pid in ids:
    if pid in claimed:
        continue
    not_app.append(dict(property_id=pid, reason=na.get(pid, "no check built yet in this round (time); planned design in DESIGN.md section 5")))
try:
    hooks = subprocess.run(["git", "-C", "/repo", "log", "--format=%H %s", "--grep=^verif-hook:"], capture_output=True, text=True).stdout.split("\n")
    hook_commits = [h.split()[0] for h in hooks if h.strip()]
except Exception:
    hook_commits = []
man = dict(
    version=1,
    setup_cmd="python3 tools/setup.py",
    hooks=dict(guard="BITCOIN_VERIF",
               enable="cmake -S /repo -B /verif/.build/repo ... -DAPPEND_CPPFLAGS=-DBITCOIN_VERIF (tools/vflib.py CMAKE_ARGS); every check runs ninja there before it links its harness adapter",
               baseline_off_cmd="cmake --build /repo/_build -j16 && ctest --test-dir /repo/_build -j8 --timeout 900",
               source_commits=hook_commits, add_only=True),
    engines=[dict(name=k, path="tools/vflib.py + harness/adapters", serves_properties=v,
                  kind_free_text={"E1": "graph replay: every transition of TLC's bounded state graph replayed on the real object",
                                  "E2": "simulation replay: TLC -simulate behaviours replayed on the real object / node",
                                  "E3": "trace validation: executions of the real code checked by TLC against the trace specification",
                                  "E4": "oracle table: TLC enumerates the input domain of a TLA+ operator; each row replayed on the real function"}.get(k.split("+")[0], k))
             for k, v in sorted(engines.items())],
    checks=checks,
    notes="Every check: (1) rebuilds the hook-enabled libraries from /repo's working tree, (2) model-checks the TLA+ specification with TLC, (3) binds it to the code by replay / trace validation. Exit 2 = infrastructure error (never a verdict).",
    not_applicable=not_app)
json.dump(man, open(os.path.join(ROOT, "MANIFEST.json"), "w"), indent=1)
print("MANIFEST.json: %d checks, %d not claimed" % (len(checks), len(not_app)))
