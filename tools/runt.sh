#!/bin/sh
# tools/runt.sh <ID>...   run THOROUGH checks one after the other with evidence redirected to a scratch directory (the committed
# evidence stays the quick tier's); log under .build/scratch/runt/, print one line each
mkdir -p /verif/.build/scratch/runt /verif/.build/scratch/evid_thorough
for p in "$@"; do
  s=$(date +%s); VERIF_EVID=/verif/.build/scratch/evid_thorough ./check $p --tier thorough > /verif/.build/scratch/runt/$p.log 2>&1; rc=$?; e=$(date +%s)
  echo "$p exit=$rc wall=$((e-s))s viol=$(grep -c '^VIOLATION' /verif/.build/scratch/runt/$p.log) :: $(tail -1 /verif/.build/scratch/runt/$p.log | cut -c1-150)"
done
