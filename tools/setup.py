#!/usr/bin/env python3
"""MANIFEST.setup_cmd: configure and build the hook-enabled libraries (offline), check the TLA+ tool chain."""
import os, subprocess, sys
sys.path.insert(0, os.path.dirname(os.path.abspath(__file__)))
import vflib
ctx = vflib.Ctx("setup")
try:
    ctx.build_libs()
    ctx.build_adapter("coins")
except vflib.InfraError as e:
    print("setup failed:", e); sys.exit(2)
r = subprocess.run(["java", "-cp", vflib.TLA_JAR, "tlc2.TLC", "-h"], capture_output=True, text=True)
print("setup ok")
