#!/usr/bin/env python3
"""Rewrites the block between <!-- AS-BUILT-BEGIN --> and <!-- AS-BUILT-END --> in DESIGN.md: one row per registered check with
the specification modules TLC actually ran (from the evidence file), the harness adapter(s), the engine and the quick-tier sizes."""
import json, os, re
ROOT = os.path.dirname(os.path.dirname(os.path.abspath(__file__)))
man = json.load(open(os.path.join(ROOT, "MANIFEST.json")))
rows = ["| Prop | Engine | TLA+ modules run by TLC (quick) | Harness adapter(s) | Quick tier: states / transitions / impl. executions / evaluations |", "|---|---|---|---|---|"]
for c in man["checks"]:
    pid = c["property_id"]
    try:
        ev = json.load(open(os.path.join(ROOT, "evidence", pid + ".json")))
    except Exception:
        continue
    cov = ev.get("coverage", {})
    mods = []
    for r in cov.get("tlc_runs", []):
        m = r.get("module")
        if m and m not in mods:
            mods.append(m)
    src = open(os.path.join(ROOT, "props", pid + ".py")).read()
    for helper in re.findall(r"^import .*?(_\w+)", src, re.M) + re.findall(r",\s*(_\w+)", src.split("\n\n")[0]):
        hp = os.path.join(ROOT, "props", helper + ".py")
        if os.path.exists(hp):
            src += open(hp).read()
    ads = sorted(set(re.findall(r'build_adapter\("(\w+)"\)', src)))
    rows.append("| %s | %s | %s | %s | %s / %s / %s / %s |" % (pid, c["engine"], ", ".join("`%s`" % m for m in mods) or "—",
                ", ".join("`%s.cpp`" % a for a in ads) or "—", cov.get("states", "?"), cov.get("transitions", "?"),
                cov.get("traces_validated_against_impl", "?"), cov.get("evaluations", "?")))
p = os.path.join(ROOT, "DESIGN.md")
s = open(p).read()
block = "<!-- AS-BUILT-BEGIN -->\n" + "\n".join(rows) + "\n<!-- AS-BUILT-END -->"
if "<!-- AS-BUILT-BEGIN -->" in s:
    s = re.sub(r"<!-- AS-BUILT-BEGIN -->.*?<!-- AS-BUILT-END -->", lambda m: block, s, flags=re.S)
else:
    raise SystemExit("markers missing in DESIGN.md")
open(p, "w").write(s)
print("%d rows" % (len(rows) - 2))
