#!/usr/bin/env python3
"""Shared machinery for the model-based checks (see DESIGN.md section 2).

  Ctx.build_libs / build_adapter   rebuild the hook-enabled libraries from /repo's working tree and one harness binary
  Ctx.tlc                          run TLC (BFS or -simulate), collect statistics and the VF| lines a spec emits
  load_emitted / edge_tests / path_cover / sim_behaviours   turn TLC output into implementation tests (engines E1/E2/E4)
  Ctx.run_harness                  run a harness adapter over sharded ndjson input, collect mismatches
  Ctx.validate_trace               engine E3: TLC decides whether a recorded trace is a behaviour of the trace spec
  Ctx.violation / finish           VIOLATION / KNOWN-FINDING protocol and evidence/<ID>.json
"""
import collections, fcntl, hashlib, json, os, re, shutil, subprocess, sys, time

ROOT = os.path.dirname(os.path.dirname(os.path.abspath(__file__)))
REPO = os.environ.get("VERIF_REPO", "/repo")
BUILD = os.environ.get("VERIF_BUILD") or os.path.join(ROOT, ".build")   # VERIF_REPO/VERIF_BUILD/VERIF_EVID: scratch runs against a mutated copy
HB = os.path.join(BUILD, "repo")            # hook-enabled build tree of /repo
HARNESS_SRC = os.path.join(ROOT, "harness")
HARNESS_OUT = os.path.join(BUILD, "harness")
SPECS = os.path.join(ROOT, "specs")
EVID = os.environ.get("VERIF_EVID") or os.path.join(ROOT, "evidence")
TLA_JAR = "/opt/veriftools/tla/tla2tools.jar:/opt/veriftools/tla/CommunityModules-deps.jar"
NCPU = os.cpu_count() or 8


def free_cpus():
    """Parallelism for the next phase: all cores on an idle machine, fewer when other checks are running (load-adaptive,
    so that concurrent checks do not oversubscribe the machine). VERIF_JOBS overrides."""
    if os.environ.get("VERIF_JOBS"):
        return max(1, int(os.environ["VERIF_JOBS"]))
    try:
        load = os.getloadavg()[0]
    except OSError:
        load = 0
    return int(max(2, min(NCPU, NCPU - load + 1)))


NPROC = NCPU

LIB_TARGETS = ["lib/libtest_util.a", "lib/libbitcoin_cli.a", "lib/libbitcoin_node.a", "lib/libbitcoin_consensus.a",
               "src/libminisketch.a", "src/secp256k1/lib/libsecp256k1.a", "lib/libbitcoin_wallet.a", "src/libleveldb.a",
               "src/libcrc32c.a", "lib/libbitcoin_common.a", "src/univalue/libunivalue.a", "lib/libbitcoin_util.a",
               "lib/libbitcoin_crypto.a", "lib/libbitcoin_clientversion.a"]

CMAKE_ARGS = ["-G", "Ninja", "-DCMAKE_BUILD_TYPE=Release", "-DBUILD_TESTS=ON", "-DBUILD_GUI=OFF", "-DBUILD_BENCH=OFF",
              "-DBUILD_FUZZ_BINARY=OFF", "-DENABLE_IPC=OFF", "-DBUILD_CLI=OFF", "-DBUILD_TX=OFF", "-DBUILD_UTIL=OFF",
              "-DBUILD_WALLET_TOOL=OFF", "-DBUILD_BITCOIN_BIN=OFF", "-DBUILD_DAEMON=ON", "-DWITH_ZMQ=OFF",
              "-DENABLE_EXTERNAL_SIGNER=OFF", "-DCMAKE_CXX_FLAGS=-Wno-error", "-DAPPEND_CPPFLAGS=-DBITCOIN_VERIF"]


class InfraError(Exception):
    """Build failure, TLC crash, harness abort outside a compared step: exit 2, never a verdict."""


def sh(cmd, **kw):
    return subprocess.run(cmd, stdout=subprocess.PIPE, stderr=subprocess.STDOUT, text=True, **kw)


def canon(x):
    return json.dumps(x, sort_keys=True, separators=(",", ":"))


class TLCResult:
    def __init__(self):
        self.generated = 0; self.distinct = 0; self.depth = 0; self.ok = False; self.error = None
        self.emit_path = None; self.emitted = 0; self.log_path = None; self.wall = 0.0; self.coverage = {}
        self.exit = None; self.postcondition_false = False; self.violated = None

    def as_dict(self):
        return dict(generated=self.generated, distinct=self.distinct, depth=self.depth, emitted=self.emitted,
                    wall_s=round(self.wall, 1), violated=self.violated)


class Ctx:
    def __init__(self, prop, tier="quick", seed=1, replay=None):
        self.prop, self.tier, self.seed, self.replay = prop, tier, int(seed), replay
        self.t0 = time.time()
        self.violations = []      # list of dicts (reported)
        self.known_hits = []
        self.work = os.path.join(BUILD, "work", prop)
        shutil.rmtree(self.work, ignore_errors=True)
        os.makedirs(self.work, exist_ok=True)
        self.tmp = os.path.join(BUILD, "tmp", "%s-%d" % (prop, os.getpid()))
        os.makedirs(self.tmp, exist_ok=True)
        os.makedirs(os.path.join(EVID, "replay"), exist_ok=True)
        self.tlc_runs = []
        self.states = 0; self.transitions = 0; self.traces = 0
        self.evaluations = 0; self.nontrivial = set(); self.samples = []
        self.extra = {}; self.assumptions = []
        self._known = load_known()

    # ------------------------------------------------------------------ logging
    def log(self, *a):
        print("[%s %6.1fs]" % (self.prop, time.time() - self.t0), *a, flush=True)

    # ------------------------------------------------------------------ build
    def build_libs(self):
        os.makedirs(BUILD, exist_ok=True)
        with open(os.path.join(BUILD, "lock"), "w") as lk:
            fcntl.flock(lk, fcntl.LOCK_EX)
            if not os.path.exists(os.path.join(HB, "build.ninja")):
                r = sh(["cmake", "-S", REPO, "-B", HB] + CMAKE_ARGS)
                if r.returncode:
                    raise InfraError("cmake configure failed:\n" + r.stdout[-3000:])
            r = sh(["ninja", "-C", HB] + LIB_TARGETS)
            if r.returncode:
                raise InfraError("library build failed:\n" + r.stdout[-6000:])

    def build_adapter(self, name):
        """Compile harness/adapters/<name>.cpp (+ common) against the hook build; returns the binary path."""
        self.build_libs()
        with open(os.path.join(BUILD, "lock"), "w") as lk:
            fcntl.flock(lk, fcntl.LOCK_EX)
            gen_harness_ninja()
            r = sh(["ninja", "-C", HARNESS_OUT, "bin/" + name])
            if r.returncode:
                errs = [l for l in r.stdout.splitlines() if "error" in l and not l.startswith("ccache ")]
                raise InfraError("harness build failed (%s):\n%s" % (name, "\n".join(errs[:30]) or r.stdout[-3000:]))
        return os.path.join(HARNESS_OUT, "bin", name)

    # ------------------------------------------------------------------ TLC
    def tlc(self, module_dir, module, cfg, *, name=None, workers=None, simulate=None, depth_first=False,
            env=None, xmx="12g", coverage=False, timeout=3000, expect_violation=False, extra_args=None,
            emit=True, single_worker=False):
        """Run TLC on specs/<module_dir>/<module>.tla with <cfg>. simulate=(num, depth) switches to -simulate.
        Lines the spec prints as "VF|<json>" are collected (unescaped) into an ndjson file."""
        name = name or cfg.replace(".cfg", "")
        sdir = os.path.join(SPECS, module_dir)
        meta = os.path.join(self.work, "tlc-" + name)
        shutil.rmtree(meta, ignore_errors=True)
        os.makedirs(meta, exist_ok=True)
        res = TLCResult()
        res.log_path = os.path.join(self.work, name + ".tlc.log")
        res.emit_path = os.path.join(self.work, name + ".emit.ndjson")
        if workers is None:
            workers = 1 if (simulate or single_worker) else min(free_cpus(), 16)
        jopts = ["-XX:+UseParallelGC", "-Xmx" + xmx, "-DTLA-Library=" + os.path.join(SPECS, "lib"),
                 "-Dtlc2.tool.fp.FPSet.impl=tlc2.tool.fp.OffHeapDiskFPSet"]
        if depth_first:
            jopts.append("-Dtlc2.tool.queue.IStateQueue=StateDeque")
        cmd = ["java"] + jopts + ["-cp", TLA_JAR, "tlc2.TLC", "-workers", str(workers), "-metadir", meta,
                                  "-config", cfg, "-noGenerateSpecTE"]
        if simulate:
            num, depth = simulate
            cmd += ["-simulate", "num=%d" % num, "-depth", str(depth), "-seed", str(self.seed)]
        if coverage:
            cmd += ["-coverage", "1"]
        if extra_args:
            cmd += extra_args
        cmd.append(module + ".tla")
        e = dict(os.environ)
        e.pop("JAVA_TOOL_OPTIONS", None)
        if env:
            e.update(env)
        t0 = time.time()
        p = subprocess.Popen(["timeout", str(timeout)] + cmd, cwd=sdir, env=e, stdout=subprocess.PIPE,
                             stderr=subprocess.STDOUT, text=True, bufsize=1 << 20)
        n_emit = 0
        with open(res.log_path, "w") as lg, open(res.emit_path, "w") as em:
            for line in p.stdout:
                if emit and line.startswith('"VF|'):
                    try:
                        if "\\\\" in line:
                            em.write(json.loads(line)[3:])
                        else:
                            em.write(line[4:line.rindex('"')].replace('\\"', '"'))
                        em.write("\n"); n_emit += 1
                    except Exception:
                        lg.write(line)
                else:
                    lg.write(line)
        p.wait()
        res.exit = p.returncode
        res.wall = time.time() - t0
        res.emitted = n_emit
        txt = open(res.log_path, errors="replace").read()
        m = re.findall(r"(\d+) states generated, (\d+) distinct states found", txt)
        if m:
            res.generated, res.distinct = int(m[-1][0]), int(m[-1][1])
        m = re.search(r"The number of states generated: (\d+)", txt)
        if m:
            res.generated = max(res.generated, int(m.group(1)))
        m = re.search(r"depth of the complete state graph search is (\d+)", txt)
        if m:
            res.depth = int(m.group(1))
        if coverage:
            for mm in re.finditer(r"<(\w+) line \d+, col \d+ to line \d+, col \d+ of module (\w+)>: (\d+):(\d+)", txt):
                res.coverage[mm.group(1)] = (int(mm.group(3)), int(mm.group(4)))
        m = re.search(r"Error: (Invariant|Action property|Temporal properties?|Property) ?(\S*) (is|was|were) violated", txt)
        if m:
            res.violated = m.group(2) or m.group(1)
        elif "is violated" in txt or "was violated" in txt:
            res.violated = "unknown"
        if re.search(r"Postcondition .* is false|Evaluating assumption .* failed|Error: The postcondition", txt):
            res.postcondition_false = True
        res.ok = (res.exit == 0 and not res.violated and not res.postcondition_false)
        if res.exit == 124:
            res.error = "timeout"
        elif res.exit not in (0, 12, 13) and not res.violated and not res.postcondition_false:
            if simulate and res.exit in (0, 1) and "Error:" not in txt:
                res.ok = True
            else:
                res.error = "TLC failed (exit %s): %s" % (res.exit, tail_errors(txt))
        self.tlc_runs.append(dict(name=name, module=module, cfg=cfg, simulate=simulate, **res.as_dict()))
        self.log("TLC %s/%s %s: generated=%d distinct=%d depth=%d emitted=%d exit=%s %.1fs%s" % (
            module_dir, module, cfg, res.generated, res.distinct, res.depth, res.emitted, res.exit, res.wall,
            " VIOLATED " + str(res.violated) if res.violated else ""))
        if res.error and not expect_violation:
            raise InfraError(res.error + "\n(log: %s)" % res.log_path)
        if res.violated and not expect_violation:
            # The specification itself admits a bad state: a defect of the model, not a verdict on the code.
            raise InfraError("specification %s violates %s under %s (model defect; log %s)\n%s" % (
                module, res.violated, cfg, res.log_path, tail_errors(txt)))
        if not simulate:
            self.states += res.distinct
            self.transitions += res.generated
        else:
            self.states += res.generated
            self.transitions += res.generated
        return res

    # ------------------------------------------------------------------ harness
    def run_harness(self, binary, mode, items, *, args=(), nproc=None, timeout=3000, name=None, env=None):
        """Write `items` (list of JSON-able test cases, or a path) to shards, run `binary mode shard args...` in
        parallel. The adapter prints one JSON object per line; kinds: mismatch, abort, summary, info, trace."""
        name = name or mode
        nproc = nproc or free_cpus()
        if isinstance(items, str):
            with open(items) as f:
                lines = f.readlines()
        else:
            lines = [(x if isinstance(x, str) else json.dumps(x)) + "\n" for x in items]
        nproc = max(1, min(nproc, len(lines)))
        # the timeout only exists to end a hung harness: fewer processes (loaded machine, VERIF_JOBS) mean longer shards, and the
        # thorough tier replays an order of magnitude more
        timeout = int(timeout * min(4.0, max(1.0, 16.0 / nproc)) * (6 if self.tier == "thorough" else 1))
        shards = []
        for i in range(nproc):
            pth = os.path.join(self.work, "%s.in.%d" % (name, i))
            with open(pth, "w") as f:
                f.writelines(lines[i::nproc])
            shards.append(pth)
        e = dict(os.environ); e["TMPDIR"] = self.tmp
        if env:
            e.update(env)
        procs = []
        for i, pth in enumerate(shards):
            out = open(os.path.join(self.work, "%s.out.%d" % (name, i)), "w")
            procs.append((subprocess.Popen(["timeout", str(timeout), binary, mode, pth] + [str(a) for a in args],
                                           stdout=out, stderr=subprocess.STDOUT, env=e, cwd=self.tmp), out, i))
        result = dict(mismatches=[], aborts=[], deviations=[], summary=collections.Counter(), infos=[], traces=[])
        for p, out, i in procs:
            p.wait(); out.close()
            saw_summary = False
            with open(out.name, errors="replace") as f:
                for ln in f:
                    if not ln.startswith("{"):
                        continue
                    try:
                        o = json.loads(ln)
                    except Exception:
                        continue
                    k = o.get("kind")
                    if "test" in o and isinstance(o["test"], int):
                        o["shard"] = i
                        # index of the test in the unsharded input
                        o["index"] = o["test"] * nproc + i
                    if k == "mismatch":
                        result["mismatches"].append(o)
                    elif k == "abort":
                        result["aborts"].append(o)
                    elif k == "deviation":
                        result["deviations"].append(o)
                    elif k == "summary":
                        saw_summary = True
                        for kk, vv in o.items():
                            if isinstance(vv, (int, float)) and kk not in ("shard",):
                                result["summary"][kk] += vv
                    elif k == "trace":
                        result["traces"].append(o)
                    else:
                        result["infos"].append(o)
            if not saw_summary and not result["aborts"]:
                raise InfraError("harness %s %s shard %d ended without summary (exit %s); see %s" % (
                    os.path.basename(binary), mode, i, p.returncode, out.name))
        result["lines"] = lines
        result["nproc"] = nproc
        return result

    def run_driver(self, binary, mode, *, args=(), timeout=3000, out_name=None, env=None):
        """Run an adapter that *produces* a trace (engine E3); stdout goes to a file that is returned."""
        out_name = out_name or os.path.join(self.work, mode + ".trace.ndjson")
        e = dict(os.environ); e["TMPDIR"] = self.tmp
        if env:
            e.update(env)
        with open(out_name, "w") as out, open(out_name + ".err", "w") as err:
            p = subprocess.run(["timeout", str(timeout), binary, mode] + [str(a) for a in args], stdout=out,
                               stderr=err, env=e, cwd=self.tmp)
        if p.returncode not in (0,):
            raise InfraError("driver %s %s failed (exit %s): %s" % (os.path.basename(binary), mode, p.returncode,
                                                                  open(out_name + ".err").read()[-2000:]))
        return out_name

    # ------------------------------------------------------------------ E3
    def validate_trace(self, module_dir, module, cfg, trace_path, *, name=None, depth_first=False, xmx="8g",
                       timeout=3000, env=None):
        """TLC decides whether the recorded trace is a behaviour of the trace specification. The trace spec exposes
        `l` (next line to consume); acceptance = POSTCONDITION in the cfg (diameter-1 = Len) or the spec's own rule.
        Returns (accepted, matched_prefix_len, result)."""
        e = {"TRACE": trace_path}
        if env:
            e.update(env)
        res = self.tlc(module_dir, module, cfg, name=name or "trace", workers=1, depth_first=depth_first, env=e,
                       xmx=xmx, timeout=timeout, expect_violation=True, emit=True)
        if res.error:
            raise InfraError(res.error + " (trace validation; log %s)" % res.log_path)
        if res.violated and res.violated != "NotAccepted":
            # an invariant of the specification is false on a state of the *implementation's* trace
            return False, max(0, res.depth - 1), res
        if res.violated == "NotAccepted":
            return True, res.depth - 1, res
        return (not res.postcondition_false), max(0, res.depth - 1), res

    # ------------------------------------------------------------------ verdicts
    def violation(self, key, what, replay_obj, confirm=None):
        """Report a violation unless it is a listed known finding. `confirm` (callable → bool) re-runs the failing case;
        a violation that does not repeat is dropped (and noted)."""
        for k in self._known:
            if k.get("status") == "known" and k.get("property") == self.prop and k.get("key") == key:
                if key not in [h["key"] for h in self.known_hits]:
                    print("KNOWN-FINDING: property=%s %s" % (self.prop, k.get("what", what)), flush=True)
                    self.known_hits.append(k)
                return False
        if confirm is not None:
            try:
                if not confirm():
                    self.extra.setdefault("unrepeatable", []).append(what)
                    self.log("dropped unrepeatable rejection:", what)
                    return False
            except InfraError as ex:
                self.log("confirm run failed:", ex)
        n = len(self.violations) + 1
        path = os.path.join(EVID, "replay", "%s-%d-%d.json" % (self.prop, self.seed, n))
        with open(path, "w") as f:
            json.dump(dict(property=self.prop, key=key, what=what, **replay_obj), f, indent=1)
        if n <= 20:
            print("VIOLATION property=%s replay=%s" % (self.prop, path), flush=True)
            print("  what: " + what[:600], flush=True)
        self.violations.append(dict(key=key, what=what, replay=path))
        return True

    def sample(self, x, limit=4):
        if len(self.samples) < limit:
            self.samples.append(x)

    def finish(self, level="model_checking", rule="", exhaustive=False, note=None):
        shutil.rmtree(self.tmp, ignore_errors=True)
        cov = dict(states=max(self.states, 1) if level == "model_checking" else self.states,
                   transitions=max(self.transitions, 1) if level == "model_checking" else self.transitions,
                   traces_validated_against_impl=self.traces,
                   evaluations=self.evaluations, distinct_nontrivial=len(self.nontrivial) if isinstance(self.nontrivial, set) else int(self.nontrivial),
                   rule=rule, samples=self.samples or ["(none)"], exhaustive=bool(exhaustive),
                   tlc_runs=self.tlc_runs, known_findings_hit=[k["key"] for k in self.known_hits])
        cov.update(self.extra)
        if note:
            cov["explanation"] = note
        ev = dict(property_id=self.prop, tier=self.tier, seed=self.seed, level=level, coverage=cov,
                  assumptions=self.assumptions, wall_s=round(time.time() - self.t0, 2),
                  violations=len(self.violations))
        os.makedirs(EVID, exist_ok=True)
        with open(os.path.join(EVID, self.prop + ".json"), "w") as f:
            json.dump(ev, f, indent=1)
        self.log("done: states=%d transitions=%d impl_traces=%d evaluations=%d nontrivial=%d violations=%d" % (
            self.states, self.transitions, self.traces, self.evaluations, cov["distinct_nontrivial"], len(self.violations)))
        return 1 if self.violations else 0


def tail_errors(txt, n=25):
    lines = txt.splitlines()
    idx = [i for i, l in enumerate(lines) if l.startswith("Error:") or "Exception" in l]
    if idx:
        return "\n".join(lines[idx[0]: idx[0] + n])
    return "\n".join(lines[-n:])


def load_known():
    out = []
    p = os.path.join(ROOT, "known_findings.jsonl")
    if os.path.exists(p):
        for ln in open(p):
            ln = ln.strip()
            if ln and not ln.startswith("#"):
                try:
                    out.append(json.loads(ln))
                except Exception:
                    pass
    return out


# ---------------------------------------------------------------------- harness build file
def _grab(txt, start_pat, key):
    m = re.search(start_pat, txt, re.M)
    if not m:
        raise InfraError("cannot find %s in hook build.ninja" % start_pat)
    blk = txt[m.start(): txt.find("\n\n", m.start())]
    mm = re.search(r"^\s+%s = (.*)$" % key, blk, re.M)
    return mm.group(1).strip() if mm else ""


def gen_harness_ninja():
    txt = open(os.path.join(HB, "build.ninja")).read()
    obj = r"^build src/test/CMakeFiles/test_bitcoin\.dir/coins_tests\.cpp\.o:"
    defines = _grab(txt, obj, "DEFINES"); flags = _grab(txt, obj, "FLAGS"); includes = _grab(txt, obj, "INCLUDES")
    lnk = r"^build bin/test_bitcoin:"
    link_flags = _grab(txt, lnk, "LINK_FLAGS"); link_libs = _grab(txt, lnk, "LINK_LIBRARIES")
    libs = []
    for tok in link_libs.split():
        libs.append(tok if tok.startswith("/") or tok.startswith("-") else os.path.join(HB, tok))
    lib_files = [l for l in libs if l.endswith(".a")]
    os.makedirs(os.path.join(HARNESS_OUT, "bin"), exist_ok=True)
    common = sorted(f for f in os.listdir(os.path.join(HARNESS_SRC, "common")) if f.endswith(".cpp"))
    adapters = sorted(f[:-4] for f in os.listdir(os.path.join(HARNESS_SRC, "adapters")) if f.endswith(".cpp"))
    out = ["# generated by tools/vflib.py from %s/build.ninja" % HB,
           "cxxflags = %s %s %s -DBITCOIN_VERIF -I%s -I%s -Wno-unused -Wno-sign-compare -Wno-unused-parameter -Wno-redundant-decls" % (
               defines, includes, flags, os.path.join(HARNESS_SRC, "common"), os.path.join(REPO, "src", "test")),
           "ldflags = %s" % link_flags,
           "rule cxx\n  command = ccache /usr/bin/c++ $cxxflags -MD -MT $out -MF $out.d -o $out -c $in\n  depfile = $out.d\n  deps = gcc\n  description = CXX $out",
           "rule link\n  command = /usr/bin/c++ -O2 $ldflags -o $out $objs -Wl,--start-group %s -Wl,--end-group -lrapidcheck -lpthread && strip $out\n  description = LINK $out" % " ".join(libs)]
    cobjs = []
    for c in common:
        o = "obj/common_%s.o" % c[:-4]
        out.append("build %s: cxx %s" % (o, os.path.join(HARNESS_SRC, "common", c)))
        cobjs.append(o)
    for a in adapters:
        o = "obj/%s.o" % a
        out.append("build %s: cxx %s" % (o, os.path.join(HARNESS_SRC, "adapters", a + ".cpp")))
        out.append("build bin/%s: link %s %s | %s\n  objs = %s %s" % (a, o, " ".join(cobjs), " ".join(lib_files), o, " ".join(cobjs)))
    new = "\n".join(out) + "\n"
    pth = os.path.join(HARNESS_OUT, "build.ninja")
    if not os.path.exists(pth) or open(pth).read() != new:
        with open(pth, "w") as f:
            f.write(new)


# ---------------------------------------------------------------------- turning TLC output into tests
def load_emitted(path, limit=None):
    out = []
    with open(path) as f:
        for i, ln in enumerate(f):
            if limit and i >= limit:
                break
            out.append(json.loads(ln))
    return out


class Graph:
    """State graph from an edge dump. Each edge record: {l: level of source, f: state, a: action, r: result, t: state}."""
    def __init__(self, edges, state_key=None):
        self.nodes = {}; self.out = collections.defaultdict(list); self.inits = []
        self.nedges = 0
        seen_init = set(); seen_edge = set()
        for e in edges:
            # fk/tk (full state) when the projection f/t is not injective, see VFEdgeK in specs/lib/VF.tla
            kf, kt = canon(e.get("fk", e["f"])), canon(e.get("tk", e["t"]))
            ek = (kf, canon(e["a"]), kt, canon(e.get("r")))
            if ek in seen_edge:
                continue
            seen_edge.add(ek)
            self.nodes.setdefault(kf, e["f"]); self.nodes.setdefault(kt, e["t"])
            self.out[kf].append((e["a"], e.get("r"), kt)); self.nedges += 1
            if e.get("l") == 1 and kf not in seen_init:
                seen_init.add(kf); self.inits.append(kf)
        self.parent = {k: None for k in self.inits}
        dq = collections.deque(self.inits)
        while dq:
            k = dq.popleft()
            for a, r, kt in self.out.get(k, ()):
                if kt not in self.parent:
                    self.parent[kt] = (k, a, r); dq.append(kt)

    def tree_path(self, k):
        p = []
        while self.parent[k] is not None:
            pk, a, r = self.parent[k]; p.append((a, r, k)); k = pk
        p.reverse()
        return k, p

    def edge_tests(self):
        """One test per transition: BFS-tree path to the source state, then the edge (cheap-reset objects)."""
        for kf, outs in self.out.items():
            if kf not in self.parent:
                continue
            root, p = self.tree_path(kf)
            pre = [dict(a=a, r=r, exp=self.nodes[k]) for a, r, k in p]
            for a, r, kt in outs:
                yield dict(init=self.nodes[root], steps=pre + [dict(a=a, r=r, exp=self.nodes[kt])])

    def path_cover(self, max_len=10 ** 9):
        """Greedy set of paths from initial states that together traverse every reachable edge (expensive reset)."""
        remaining = {k: list(v) for k, v in self.out.items() if k in self.parent}
        total = sum(len(v) for v in remaining.values())
        # distance-to-uncovered is approximated: walk uncovered edges greedily; restart from the tree path of a
        # state that still has uncovered edges.
        pending = collections.deque(k for k in self.parent if remaining.get(k))
        while total > 0:
            while pending and not remaining.get(pending[0]):
                pending.popleft()
            if not pending:
                break
            start = pending[0]
            root, p = self.tree_path(start)
            steps = [dict(a=a, r=r, exp=self.nodes[k]) for a, r, k in p]
            cur = start
            while remaining.get(cur) and len(steps) < max_len:
                a, r, kt = remaining[cur].pop()
                total -= 1
                steps.append(dict(a=a, r=r, exp=self.nodes[kt]))
                cur = kt
            yield dict(init=self.nodes[root], steps=steps)


def sim_behaviours(path, with_fans=False):
    """Split a -simulate emit file into behaviours {init, steps:[{a,r,exp}]}. TLC evaluates the action constraint for *every*
    candidate successor of the state it is in, so the file holds, per visited state, the group of all its outgoing
    transitions (same level l, same source state); the successor TLC chose is the source of the next group. With
    with_fans=True also returns, for every visited state, the path to it plus each candidate transition (all of them are
    transitions of the specification): (behaviours, fans)."""
    groups = []
    with open(path) as f:
        cur = None
        for ln in f:
            e = json.loads(ln)
            if "l" not in e or "f" not in e:
                continue
            kf = canon(e.get("fk", e["f"]))
            if cur is None or cur["l"] != e["l"] or cur["kf"] != kf:
                cur = dict(l=e["l"], kf=kf, f=e["f"], edges={})
                groups.append(cur)
            cur["edges"].setdefault(canon([e["a"], e.get("tk", e["t"])]), e)
    behaviours, fans = [], []
    steps, init = [], None
    for i, g in enumerate(groups):
        if g["l"] == 1:
            if steps:
                behaviours.append(dict(init=init, steps=steps))
            steps, init = [], g["f"]
        if with_fans:
            for e in g["edges"].values():
                fans.append(dict(init=init, steps=steps + [dict(a=e["a"], r=e.get("r"), exp=e["t"])]))
        nxt = groups[i + 1] if i + 1 < len(groups) else None
        chosen = None
        if nxt is not None and nxt["l"] == g["l"] + 1:
            for e in g["edges"].values():
                if canon(e.get("tk", e["t"])) == nxt["kf"]:
                    chosen = e
                    break
        if chosen is None:                      # last step of a behaviour: any candidate is a transition of the spec
            chosen = next(iter(g["edges"].values()))
        steps = steps + [dict(a=chosen["a"], r=chosen.get("r"), exp=chosen["t"])]
    if steps:
        behaviours.append(dict(init=init, steps=steps))
    return (behaviours, fans) if with_fans else behaviours


def digest(x):
    return hashlib.sha1(canon(x).encode()).hexdigest()[:12]


def report_mismatches(ctx, binary, mode, result, *, args=(), what_prefix="", max_report=5, adapter=None, key_fn=None):
    """Standard handling of harness mismatches: each (up to max_report distinct keys) is re-run alone to confirm,
    then reported as a violation with the failing test case as replay artefact."""
    n = 0
    seen = set()
    for m in result["mismatches"] + result["aborts"]:
        idx = m.get("index")
        case = result["lines"][idx] if idx is not None and idx < len(result["lines"]) else None
        act = m.get("action")
        key = key_fn(m, case) if key_fn else "%s:%s" % (mode, digest([act, m.get("why")]))
        if key in seen:
            continue
        seen.add(key)
        if n >= max_report:
            break
        what = "%s%s test#%s step %s action %s: %s" % (what_prefix, m.get("kind"), idx, m.get("step"), canon(act), m.get("why"))

        def confirm(case=case):
            if case is None:
                return True
            r2 = ctx.run_harness(binary, mode, [case.strip()], args=args, nproc=1, name="confirm")
            return bool(r2["mismatches"] or r2["aborts"])
        if ctx.violation(key, what, dict(adapter=adapter or os.path.basename(binary), mode=mode, args=list(args),
                                         case=json.loads(case) if case else None, mismatch=m), confirm=confirm):
            n += 1
    return n


def judge(ctx, module_dir, module, cfg, lines, env_var="OBS", invariants=None, name="observed"):
    """INV-mode verdicts: `lines` are observations of the implementation (JSON objects, one per initial state of an *Obs module
    whose Init picks line `idx` and sets lastAct = <<"observed", idx>>). TLC evaluates the cfg's invariants (or only
    `invariants`) on every line in one run (-continue). Returns [(line_index, violated_invariant)], first violated invariant
    per line."""
    if not lines:
        return []
    path = os.path.join(ctx.work, name + ".ndjson")
    with open(path, "w") as f:
        for l in lines:
            f.write(json.dumps(l) + "\n")
    cfg_path = cfg
    if invariants is not None:
        txt = open(os.path.join(SPECS, module_dir, cfg)).read()
        txt = re.sub(r"(?m)^INVARIANTS?\b.*$", "INVARIANTS " + " ".join(invariants), txt)
        cfg_path = os.path.join(ctx.work, name + "_" + os.path.basename(cfg))
        open(cfg_path, "w").write(txt)
    r = ctx.tlc(module_dir, module, cfg_path, name=name, env={env_var: path}, expect_violation=True, workers=1, extra_args=["-continue"])
    out, cur = [], None
    for m in re.finditer(r'Invariant (\w+) is violated|lastAct = <<"observed", (\d+)>>', open(r.log_path).read()):
        if m.group(1):
            cur = m.group(1)
        elif cur is not None:
            out.append((int(m.group(2)) - 1, cur)); cur = None
    if r.violated and not out:
        raise InfraError("could not attribute the violated invariant %s to an observation (log %s)" % (r.violated, r.log_path))
    return out


def generic_replay(ctx, path):
    """./check <ID> --replay <file>: re-execute one stored failing case against the current tree."""
    o = json.load(open(path))
    if "adapter" in o and o.get("case") is not None:
        binary = ctx.build_adapter(o["adapter"])
        r = ctx.run_harness(binary, o["mode"], [json.dumps(o["case"])], args=o.get("args", ()), nproc=1, name="replay")
        bad = r["mismatches"] + r["aborts"] + r["deviations"]
        for m in bad:
            print("REPLAY %s:" % m.get("kind"), json.dumps(m)[:2000])
        print("REPLAY result: %s" % ("still fails" if bad else "passes"))
        return 1 if bad else 0
    if "trace" in o:
        acc, n, res = ctx.validate_trace(o["module_dir"], o["module"], o["cfg"], o["trace"], name="replay")
        print("REPLAY result: trace %s (matched prefix %d)" % ("accepted" if acc else "rejected", n))
        return 0 if acc else 1
    print("replay file has no replayable payload")
    return 2
