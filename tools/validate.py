#!/usr/bin/env python3
import json, sys, glob, jsonschema
jsonschema.validate(json.load(open('/verif/MANIFEST.json')), json.load(open('/root/.vp/MANIFEST.schema.json')))
es = json.load(open('/root/.vp/EVIDENCE.schema.json'))
for f in sorted(glob.glob('/verif/evidence/C*.json')):
    jsonschema.validate(json.load(open(f)), es)
print('manifest + %d evidence files valid' % len(glob.glob('/verif/evidence/C*.json')))
