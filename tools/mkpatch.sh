#!/bin/sh
# tools/mkpatch.sh <repo-relative file> <sed expression> <out.diff>   — makes a one-file mutation patch without touching /repo
set -e
T=$(mktemp -d /verif/.build/scratch/mkpatch.XXXXXX); mkdir -p "$T/a/$(dirname $1)" "$T/b/$(dirname $1)"
cp "/repo/$1" "$T/a/$1"; sed "$2" "/repo/$1" > "$T/b/$1"
( cd "$T" && diff -u "a/$1" "b/$1" > out.diff || true )
[ -s "$T/out.diff" ] || { echo "mkpatch: expression changed nothing"; rm -rf "$T"; exit 1; }
cp "$T/out.diff" "$3"; rm -rf "$T"
