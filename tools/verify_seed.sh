#!/bin/sh
# tools/verify_seed.sh <ID> <name>   independent confirmation of a seeded change stored in /verif/seeded/<ID>/<name>/:
#   applies patch.diff to a fresh private copy of /repo, builds test_bitcoin, runs the repository's test-suite (must pass),
#   builds demo.cpp against the changed and the unchanged tree (must fail / must pass). Appends the outcome to meta.json.
ID=$1; N=$2; D=/verif/seeded/$ID/$N; W=v_$N
[ -d /tmp/seedkit ] || { mkdir -p /tmp/seedkit && cp /verif/tools/seedkit/* /tmp/seedkit/ && chmod +x /tmp/seedkit/*.sh; }
rm -rf /tmp/seed/$W; /tmp/seedkit/seednew.sh $W >/dev/null
cp $D/demo.cpp /tmp/seed/$W/demo.cpp
( cd /tmp/seed/$W/repo && git apply $D/patch.diff ) || { echo "$N: patch does not apply"; exit 2; }
/tmp/seedkit/seedrun.sh $W -- cmake --build /repo/_build -j8 --target test_bitcoin > /tmp/seed/$W/build.log 2>&1; B=$?
/tmp/seedkit/seedrun.sh $W -- ctest --test-dir /repo/_build -j8 --timeout 900 > /tmp/seed/$W/ctest.log 2>&1
T=$(grep -E "tests passed|tests failed" /tmp/seed/$W/ctest.log | tail -1)
/tmp/seedkit/seedrun.sh $W -- /tmp/seedkit/build_demo.sh /tmp/seed/$W/demo.cpp /tmp/seed/$W/demo_mod > /tmp/seed/$W/demo_build.log 2>&1
/tmp/seedkit/seedrun.sh $W -- /tmp/seed/$W/demo_mod > /tmp/seed/$W/demo_mod.log 2>&1; RM=$?
/tmp/seedkit/seedrun.sh $W --clean -- /tmp/seedkit/build_demo.sh /tmp/seed/$W/demo.cpp /tmp/seed/$W/demo_clean >> /tmp/seed/$W/demo_build.log 2>&1
/tmp/seedkit/seedrun.sh $W --clean -- /tmp/seed/$W/demo_clean > /tmp/seed/$W/demo_clean.log 2>&1; RC=$?
echo "$N: build_rc=$B tests=[$T] demo_with_change_rc=$RM demo_without_change_rc=$RC"
python3 - "$D" "$B" "$T" "$RM" "$RC" <<'PY'
import json,sys
d,b,t,rm,rc=sys.argv[1:6]
m=json.load(open(d+'/meta.json'))
m['independently_confirmed']=dict(build_rc=int(b), existing_tests=t, demo_with_change_rc=int(rm), demo_without_change_rc=int(rc),
   how="tools/verify_seed.sh: fresh copy of /repo + patch, cmake --build test_bitcoin, ctest -j8, demo built and run with the change and on the unchanged tree")
json.dump(m,open(d+'/meta.json','w'),indent=1)
PY
rm -rf /tmp/seed/$W
