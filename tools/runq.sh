#!/bin/sh
# tools/runq.sh <ID>...   run quick checks one after the other, log under .build/scratch/runq/, print one line each
mkdir -p /verif/.build/scratch/runq
for p in "$@"; do
  s=$(date +%s); ./check $p > /verif/.build/scratch/runq/$p.log 2>&1; rc=$?; e=$(date +%s)
  echo "$p exit=$rc wall=$((e-s))s viol=$(grep -c '^VIOLATION' /verif/.build/scratch/runq/$p.log) :: $(tail -1 /verif/.build/scratch/runq/$p.log | cut -c1-150)"
done
