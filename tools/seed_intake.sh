#!/bin/sh
# tools/seed_intake.sh <name> [check ids...]   copy /tmp/seed/<name>/{patch.diff,demo.cpp,meta.json} to /verif/seeded/<ID>/<name>/ and run
# the listed checks (default: the property's own) against the patch with tools/mutcheck.sh; prints one line per check.
N=$1; shift; ID=${N%_*}
mkdir -p /verif/seeded/$ID/$N || exit 2
# a seed that was taken in before keeps its files (meta.json carries the independent confirmation)
[ -f /verif/seeded/$ID/$N/meta.json ] || cp /tmp/seed/$N/patch.diff /tmp/seed/$N/demo.cpp /tmp/seed/$N/meta.json /verif/seeded/$ID/$N/ || exit 2
[ $# -eq 0 ] && set -- $ID
for C in "$@"; do
  VERIF_JOBS=${VERIF_JOBS:-5} /verif/tools/mutcheck.sh /verif/seeded/$ID/$N/patch.diff $C > /verif/.build/scratch/seed_${N}_$C.log 2>&1
  echo "$N on $C: $(tail -1 /verif/.build/scratch/seed_${N}_$C.log) violations=$(grep -c '^VIOLATION' /verif/.build/scratch/seed_${N}_$C.log) :: $(grep -m1 'what:' /verif/.build/scratch/seed_${N}_$C.log | cut -c1-220)"
done
