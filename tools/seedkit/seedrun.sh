#!/bin/sh
# seedrun.sh <name> [--clean] -- <command...>
# Runs <command> in a private mount namespace in which /repo is /tmp/seed/<name>/repo (your modified copy) and /repo/_build is a
# copy-on-write overlay of the pristine, fully built /repo/_build. So `cmake --build /repo/_build` only recompiles what you changed,
# `ctest --test-dir /repo/_build` runs the repository's test-suite against your change, and the real /repo is never touched.
# With --clean the *unmodified* repository is used instead (separate overlay), to show a demonstration passes without the change.
set -e
N=$1; shift
D=/tmp/seed/$N
MODE=mod
if [ "$1" = "--clean" ]; then MODE=clean; shift; fi
[ "$1" = "--" ] && shift
mkdir -p "$D/orig" "$D/up_$MODE" "$D/work_$MODE" "$D/empty" "$D/repo/_build"
CMD="$*"
exec unshare -m sh -c "
  mount --bind /repo '$D/orig' &&
  { [ $MODE = clean ] || mount --bind '$D/repo' /repo; } &&
  mount -t overlay overlay -o lowerdir='$D/orig/_build',upperdir='$D/up_$MODE',workdir='$D/work_$MODE' /repo/_build &&
  mount --bind '$D/empty' /verif &&
  cd /repo && export TMPDIR='$D/tmp_$MODE' && mkdir -p \$TMPDIR && $CMD"
