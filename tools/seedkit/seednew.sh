#!/bin/sh
# seednew.sh <name>  -> creates /tmp/seed/<name>/repo : a private full copy (with .git) of /repo without its build directory
set -e
D=/tmp/seed/$1
[ -e "$D/repo" ] && { echo "$D/repo exists"; exit 0; }
mkdir -p "$D"
rsync -a --exclude _build /repo/ "$D/repo/"
( cd "$D/repo" && git checkout -q -b seed-$1 2>/dev/null || true )
echo "$D/repo"
