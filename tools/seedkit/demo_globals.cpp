// Globals that the repository's test utilities (test/util/setup_common.h) expect from the test binary.
#include <functional>
#include <string>
#include <vector>
extern const std::function<void(const std::string&)> G_TEST_LOG_FUN;
extern const std::function<std::vector<const char*>()> G_TEST_COMMAND_LINE_ARGUMENTS;
extern const std::function<std::string()> G_TEST_GET_FULL_NAME;
const std::function<void(const std::string&)> G_TEST_LOG_FUN{};
const std::function<std::vector<const char*>()> G_TEST_COMMAND_LINE_ARGUMENTS = []() { return std::vector<const char*>{}; };
const std::function<std::string()> G_TEST_GET_FULL_NAME = []() { return std::string{"demo"}; };
