#!/bin/sh
# build_demo.sh <demo.cpp> <out-binary>     (run it THROUGH seedrun.sh so that it sees your build)
# Compiles a standalone C++ program against the repository's libraries exactly like the unit-test binary is compiled (same flags,
# same include paths, same libraries incl. libtest_util: TestingSetup, TestChain100Setup ... are available). The program is a plain
# `int main()`: return 0 = pass, non-zero (or abort) = fail.
set -e
SRC=$(readlink -f "$1"); OUT=$(readlink -f "$2" 2>/dev/null || echo "$2")
B=/repo/_build
grab() { awk -v pat="$1" -v key="$2" '$0 ~ pat {f=1} f && $1==key {sub(/^[ ]*[A-Z_]+ = /,""); print; exit}' $B/build.ninja; }
DEF=$(grab '^build src/test/CMakeFiles/test_bitcoin.dir/coins_tests.cpp.o:' DEFINES)
FLG=$(grab '^build src/test/CMakeFiles/test_bitcoin.dir/coins_tests.cpp.o:' FLAGS)
INC=$(grab '^build src/test/CMakeFiles/test_bitcoin.dir/coins_tests.cpp.o:' INCLUDES)
LFL=$(grab '^build bin/test_bitcoin:' LINK_FLAGS)
LIBS=$(grab '^build bin/test_bitcoin:' LINK_LIBRARIES)
ABS=""
for l in $LIBS; do case $l in /*|-*) ABS="$ABS $l";; *) ABS="$ABS $B/$l";; esac; done
G=$(dirname "$0")/demo_globals.cpp
c++ $DEF $INC $FLG -g0 -I/repo/src/test -o "$OUT" "$SRC" "$G" $LFL -Wl,--start-group $ABS -Wl,--end-group -lpthread
echo "built $OUT"
