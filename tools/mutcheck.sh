#!/bin/sh
# Run a check against a *mutated copy* of /repo without touching /repo or /verif/.build:
#   tools/mutcheck.sh <patch.diff> <ID> [check args...]
# A private mount namespace binds a scratch copy of the repository over /repo and a copy of the hook build over
# /verif/.build, so paths (and therefore ninja state and ccache entries) are identical and the rebuild is incremental.
# Evidence of the mutated run goes to the scratch directory, never to /verif/evidence. Safe to run concurrently.
set -e
PATCH=$(readlink -f "$1"); shift
S=$(mktemp -d /tmp/vfm.XXXXXX)
trap 'rm -rf "$S"' EXIT
mkdir -p "$S/repo" "$S/build" "$S/evid"
rsync -a --exclude _build /repo/ "$S/repo/"
( cd "$S/repo" && (git apply "$PATCH" 2>/dev/null || patch -p1 --quiet < "$PATCH") ) || { echo "mutcheck: patch does not apply"; exit 2; }
for d in repo harness; do [ -d /verif/.build/$d ] && cp -a /verif/.build/$d "$S/build/$d"; done
# make sure ninja notices the patched files
( cd "$S/repo" && git diff --name-only 2>/dev/null | xargs -r touch )
set +e
unshare -m sh -c "mount --bind '$S/repo' /repo && mount --bind '$S/build' /verif/.build && cd /verif && VERIF_EVID='$S/evid' ${MUTCHECK_CMD:-./check} $*"
RC=$?
echo "mutcheck: exit=$RC"
exit $RC
