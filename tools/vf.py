#!/usr/bin/env python3
"""Entry point of every check: ./check <ID> [--tier quick|thorough] [--replay file]."""
import argparse, importlib.util, os, sys, traceback
sys.path.insert(0, os.path.dirname(os.path.abspath(__file__)))
import vflib


def main():
    ap = argparse.ArgumentParser()
    ap.add_argument("prop")
    ap.add_argument("--tier", default=os.environ.get("VERIF_TIER", "quick"), choices=["quick", "thorough"])
    ap.add_argument("--replay")
    a = ap.parse_args()
    seed = int(os.environ.get("VERIF_SEED", "1") or 1)
    pfile = os.path.join(vflib.ROOT, "props", a.prop + ".py")
    if not os.path.exists(pfile):
        print("no check for", a.prop); return 2
    spec = importlib.util.spec_from_file_location("prop_" + a.prop, pfile)
    mod = importlib.util.module_from_spec(spec); spec.loader.exec_module(mod)
    ctx = vflib.Ctx(a.prop, a.tier, seed, a.replay)
    try:
        if a.replay:
            if hasattr(mod, "replay"):
                return mod.replay(ctx, a.replay)
            return vflib.generic_replay(ctx, a.replay)
        return mod.run(ctx)
    except vflib.InfraError as e:
        print("INFRASTRUCTURE ERROR (not a verdict): %s" % e, flush=True)
        return 2
    except Exception:
        traceback.print_exc()
        print("INFRASTRUCTURE ERROR (not a verdict): internal error in check driver", flush=True)
        return 2
    finally:
        import shutil
        shutil.rmtree(ctx.tmp, ignore_errors=True)


if __name__ == "__main__":
    sys.exit(main())
