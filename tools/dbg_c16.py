#!/usr/bin/env python3
"""debug helper: double-crash exploration of the fixed C16 workload; prints recovered tips / universe utxo per image"""
import sys, os, json, subprocess, re
sys.path.insert(0, '/verif/tools'); sys.path.insert(0, '/verif/props')
import vflib, crashfs
ctx = vflib.Ctx('dbg16')
binary = ctx.build_adapter('crashnode')
uni = json.load(open('/verif/tools/c16_uni_debug.json'))
steps = [["mine", 0, [1], "zero", 1], ["flush"], ["mine", 1, [3], "max", 1], ["mine", 0, [2], "zero", 1], ["mine", 3, [], "zero", 1], ["mine", 4, [], "zero", 1], ["flush"]]
W = ctx.work
json.dump(dict(steps=[dict(a=a) for a in steps]), open(W + '/beh.json', 'w')); json.dump(uni, open(W + '/uni.json', 'w'))
env = dict(os.environ); env['TMPDIR'] = ctx.tmp
def strace(args, trace):
    return subprocess.run(['strace', '-f', '-y', '-xx', '-s', '8000000', '-o', trace, '-e', 'trace=' + crashfs.SYSCALLS] + args, capture_output=True, text=True, env=env, cwd=ctx.tmp)
p = strace([binary, 'workload', W + '/beh.json', W + '/uni.json', '64'], W + '/t1.txt')
wl = [json.loads(l) for l in p.stdout.splitlines() if l.startswith('{"kind":"workload"')][0]
root = wl['datadir']; calls = list(crashfs.parse(W + '/t1.txt'))
b6 = next(i for i, c in enumerate(calls) if c[3] and c[3].startswith('VF:step:6:begin')); e6 = next(i for i, c in enumerate(calls) if c[3] == 'VF:step:6:end')
fs = crashfs.FS(root)
l1 = []
for i, (call, args, ret, m) in enumerate(calls):
    n = len(fs.ops); fs.apply(call, args, ret, i)
    if b6 < i < e6 and len(fs.ops) > n and '/chainstate/' in fs.ops[-1][2]:
        l1.append((i, {p_[len(root):]: bytes(b) for p_, b in fs.image('kill').items()}))
print('level1 points in flush#2 touching chainstate:', [i for i, _ in l1])
def summarize(o):
    if 'pre' not in o: return o.get('load')
    return 'tip=%s utxo=%s' % (o['pre']['tip'], sorted((c['t'], c['i']) for c in o['pre']['utxo']))
for i1, image in l1:
    d = W + '/img1'; f0 = crashfs.FS('/x'); f0.files = {'/x' + r: bytearray(b) for r, b in image.items()}; f0.dump({k: bytes(v) for k, v in f0.files.items()}, d)
    p = strace([binary, 'recover', W + '/beh.json', W + '/uni.json', d], W + '/t2.txt')
    got = [json.loads(l) for l in p.stdout.splitlines() if l.startswith('{"kind":"recovered"')]
    print('L1 @%d:' % i1, summarize(got[0]) if got else p.stderr[-200:])
    root2 = got[0]['datadir']; calls2 = list(crashfs.parse(W + '/t2.txt'))
    st = next(i for i, c in enumerate(calls2) if c[3] == 'VF:preload:end')
    fs2 = crashfs.FS(root2, preload=image)
    for i in range(st + 1, len(calls2)):
        call, args, ret, m = calls2[i]
        n = len(fs2.ops); fs2.apply(call, args, ret, i)
        if len(fs2.ops) > n and '/chainstate/' in fs2.ops[-1][2]:
            d2 = W + '/img2'; fs2.dump(fs2.image('kill'), d2)
            p3 = subprocess.run([binary, 'recover', W + '/beh.json', W + '/uni.json', d2], capture_output=True, text=True, env=env, cwd=ctx.tmp)
            g3 = [json.loads(l) for l in p3.stdout.splitlines() if l.startswith('{"kind":"recovered"')]
            print('   L2 @%d (%s):' % (i, fs2.ops[-1][1]), summarize(g3[0]) if g3 else p3.stderr[-200:])
