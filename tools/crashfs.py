#!/usr/bin/env python3
"""Crash images from an strace log (DESIGN C16). `strace -f -y -xx -s <big> -e trace=<SYSCALLS>` of a process is replayed into
a file model; for any syscall index k the model yields
  kill image      : every write issued up to k (process killed; the page cache survives)
  power-loss image: per file only what was durable at k. Durable = content at the file's last fsync/fdatasync (plus renames of
                    synced files); unsynced files do not exist. `keep` selects directories whose unsynced writes survive
                    anyway (writes to different files may reach the disk in any order)."""
import os, re, shutil

SYSCALLS = "openat,open,creat,read,write,pwrite64,lseek,fsync,fdatasync,rename,renameat,renameat2,unlink,unlinkat,ftruncate,fallocate,mkdir,mkdirat,close,dup,dup2,dup3"
LINE = re.compile(r'^(\d+)\s+(\w+)\((.*)\)\s+=\s+(-?\d+|\?)(.*)$')
FD = re.compile(r'^(-?\d+)(?:<((?:\\x[0-9a-f]{2})*)>)?')
HEX = re.compile(r'\\x([0-9a-f]{2})')


def unhex(s):
    return bytes(int(h, 16) for h in HEX.findall(s))


def parse(path):
    """yields (syscall, args, ret, marker) ; marker = text of a VF: marker write, else None"""
    pend = {}
    for raw in open(path, errors='replace'):
        raw = raw.rstrip('\n')
        m = re.match(r'^(\d+)\s+(.*)<unfinished \.\.\.>$', raw)
        if m:
            pend[m.group(1)] = m.group(2); continue
        m = re.match(r'^(\d+)\s+<\.\.\. (\w+) resumed>(.*)$', raw)
        if m:
            raw = m.group(1) + ' ' + pend.pop(m.group(1), m.group(2) + '(') + m.group(3)
        m = LINE.match(raw)
        if not m:
            continue
        call, args, ret = m.group(2), m.group(3), m.group(4)
        marker = None
        if call == 'write' and args.startswith('-1'):
            try:
                marker = unhex(split_args(args)[1]).decode()
            except Exception:
                marker = None
        yield call, args, ret, marker


def split_args(a):
    out, cur, q, depth = [], '', False, 0
    for c in a:
        if c == '"':
            q = not q; cur += c
        elif not q and c == '<':
            depth += 1; cur += c
        elif not q and c == '>':
            depth -= 1; cur += c
        elif not q and depth == 0 and c == ',':
            out.append(cur.strip()); cur = ''
        else:
            cur += c
    if cur.strip():
        out.append(cur.strip())
    return out


class FS:
    def __init__(self, root, preload=None):
        """preload: {relative path: bytes} files that exist (and are durable) below root before the first replayed call"""
        self.root = root; self.files = {}; self.dirs = set(); self.fds = {}
        if preload:
            for rel, b in preload.items():
                self.files[root + rel] = bytearray(b)
            self._pre = {root + rel: bytes(b) for rel, b in preload.items()}
        self.durable = dict(getattr(self, "_pre", {}))      # path -> bytes durable on disk (content at last sync)
        self.ops = []          # (index, kind, path, detail) for every mutating call under root

    def inroot(self, p):
        return p.startswith(self.root)

    def apply(self, call, args, ret, idx):
        if ret.startswith('-') or ret == '?':
            return
        A = split_args(args)
        if call in ('openat', 'open', 'creat'):
            if call == 'openat':
                patharg, flags = A[1], A[2] if len(A) > 2 else ''
            else:
                patharg, flags = A[0], (A[1] if len(A) > 1 else 'O_WRONLY|O_CREAT|O_TRUNC')
            try:
                p = unhex(patharg).decode()
            except Exception:
                return
            if not p.startswith('/'):
                return
            fd = int(ret)
            if not self.inroot(p):
                self.fds[fd] = None; return
            if 'O_DIRECTORY' not in flags and (('O_CREAT' in flags and p not in self.files) or 'O_TRUNC' in flags):
                self.files[p] = bytearray()
                self.ops.append((idx, 'create', p, ''))
            off = len(self.files.get(p, b'')) if 'O_APPEND' in flags else 0
            self.fds[fd] = [p, off, 'O_APPEND' in flags]
        elif call == 'close':
            self.fds.pop(int(FD.match(A[0]).group(1)), None)
        elif call in ('dup', 'dup2', 'dup3'):
            src = int(FD.match(A[0]).group(1)); self.fds[int(ret)] = self.fds.get(src)
        elif call in ('write', 'pwrite64'):
            fd = int(FD.match(A[0]).group(1)); ent = self.fds.get(fd)
            if not ent:
                return
            data = unhex(A[1])[:int(ret)]
            p = ent[0]; buf = self.files.setdefault(p, bytearray())
            off = int(A[3]) if call == 'pwrite64' else (len(buf) if ent[2] else ent[1])
            if len(buf) < off:
                buf.extend(b'\0' * (off - len(buf)))
            buf[off:off + len(data)] = data
            if call == 'write':
                ent[1] = off + len(data)
            self.ops.append((idx, 'write', p, '%d+%d' % (off, len(data))))
        elif call == 'read':
            fd = int(FD.match(A[0]).group(1)); ent = self.fds.get(fd)
            if ent:
                ent[1] += int(ret)
        elif call == 'lseek':
            fd = int(FD.match(A[0]).group(1)); ent = self.fds.get(fd)
            if ent:
                ent[1] = int(ret)
        elif call == 'ftruncate':
            fd = int(FD.match(A[0]).group(1)); ent = self.fds.get(fd)
            if ent:
                n = int(A[1]); buf = self.files.setdefault(ent[0], bytearray())
                if len(buf) > n:
                    del buf[n:]
                else:
                    buf.extend(b'\0' * (n - len(buf)))
                self.ops.append((idx, 'truncate', ent[0], str(n)))
        elif call == 'fallocate':
            fd = int(FD.match(A[0]).group(1)); ent = self.fds.get(fd)
            if ent and A[1] == '0':
                end = int(A[2]) + int(A[3]); buf = self.files.setdefault(ent[0], bytearray())
                if len(buf) < end:
                    buf.extend(b'\0' * (end - len(buf)))
                self.ops.append((idx, 'fallocate', ent[0], str(end)))
        elif call in ('rename', 'renameat', 'renameat2'):
            ps = [unhex(x).decode() for x in A if x.startswith('"')]
            if len(ps) == 2 and self.inroot(ps[0]):
                if ps[0] in self.files:
                    self.files[ps[1]] = self.files.pop(ps[0])
                if ps[0] in self.durable:
                    self.durable[ps[1]] = self.durable.pop(ps[0])
                else:
                    self.durable.pop(ps[1], None)
                self.ops.append((idx, 'rename', ps[0], ps[1]))
        elif call in ('unlink', 'unlinkat'):
            ps = [unhex(x).decode() for x in A if x.startswith('"')]
            if ps and self.inroot(ps[0]):
                self.files.pop(ps[0], None); self.durable.pop(ps[0], None)
                self.ops.append((idx, 'unlink', ps[0], ''))
        elif call in ('mkdir', 'mkdirat'):
            ps = [unhex(x).decode() for x in A if x.startswith('"')]
            if ps and self.inroot(ps[0]):
                self.dirs.add(ps[0])
        elif call in ('fsync', 'fdatasync'):
            m = FD.match(A[0])
            if m and m.group(2):
                p = unhex(m.group(2)).decode()
                if self.inroot(p) and p in self.files:
                    self.durable[p] = bytes(self.files[p])
                    self.ops.append((idx, 'sync', p, ''))

    def image(self, mode, keep=()):
        """mode 'kill' | 'power'; keep: path fragments (e.g. '/blocks/') whose files survive with all writes even if unsynced"""
        if mode == 'kill':
            return {p: bytes(b) for p, b in self.files.items()}
        img = {}
        for p, b in self.files.items():
            if any(k in p for k in keep):
                img[p] = bytes(b)
            elif p in self.durable:
                img[p] = self.durable[p]
        return img

    def dump(self, img, dest, subdir=''):
        """writes the image's files below root+subdir to dest"""
        base = self.root + subdir
        shutil.rmtree(dest, ignore_errors=True)
        os.makedirs(dest, exist_ok=True)
        for d in sorted(self.dirs):
            if d.startswith(base):
                os.makedirs(dest + d[len(base):], exist_ok=True)
        for p, b in img.items():
            if not p.startswith(base):
                continue
            q = dest + p[len(base):]
            os.makedirs(os.path.dirname(q), exist_ok=True)
            with open(q, 'wb') as f:
                f.write(b)


def replay(trace, root):
    """-> (calls list, FS after everything). calls = [(call, args, ret, marker)]"""
    calls = list(parse(trace))
    fs = FS(root)
    for i, (call, args, ret, marker) in enumerate(calls):
        fs.apply(call, args, ret, i)
    return calls, fs
